"""In-memory ZooKeeper fake for the `master` engine (C09, C10, C11).

One `Store` (the ensemble: znodes with data, ctime/mtime in virtual-clock milliseconds, czxid/mzxid,
version, ephemeralOwner, per-parent sequence counters, live sessions) shared by several `Client`s
(one session each).  A `Client` offers the part of the kazoo API that the REAL
`treadmill.scheduler.zkbackend.ZkBackend` and the REAL `treadmill.zkutils` use:
exists / get / get_children / create (makepath, ephemeral, sequence) / set / set_acls / delete /
ensure_path, the acl helpers, `handler.event_object()` and a `ChildrenWatch` attribute.

Semantics mirrored from ZooKeeper/kazoo (assumed, see trusted base of C10/C11):
  * every create / set / delete is atomic; `create(makepath=True)` creates each missing parent as
    a separate write (kazoo does `ensure_path` and then `create`),
  * `set` changes mtime/mzxid/version and never ctime/czxid,
  * `delete` of a node with children raises NotEmptyError; of a missing node NoNodeError,
  * `get_children` returns names in *sorted* order (real ZooKeeper: unspecified order),
  * ephemeral nodes disappear when their session expires; no children under ephemerals.

Hooks (none changes behaviour unless armed):
  * `Client.cut` - int or None.  When the client has performed `cut` writes, the next write raises
    `Cut` (a BaseException: nothing in treadmill catches it) BEFORE changing anything: the store
    then holds exactly the first `cut` writes of the run.
  * `Client.log` - list, one entry `(kind, path, data)` per write performed by this client
    (kind in create/set/delete), in order.  `Store.apply(entry, now_ms)` replays one entry, which
    is how the harness materialises "the store after the first k writes" without re-running the
    master (the master is deterministic given the store; a sampled real cut checks this).
"""
import collections
import threading

import kazoo.exceptions as ke
from kazoo.protocol.states import ZnodeStat


class Cut(BaseException):
    """The master process stops here (raised by the write hook)."""


class Rec(object):
    """A znode."""
    __slots__ = ('data', 'ctime', 'mtime', 'czxid', 'mzxid', 'version', 'owner')

    def __init__(self, data, now, zxid, owner=None):
        self.data = data
        self.ctime = now
        self.mtime = now
        self.czxid = zxid
        self.mzxid = zxid
        self.version = 0
        self.owner = owner

    def copy(self):
        r = Rec(self.data, self.ctime, self.czxid, self.owner)
        r.mtime = self.mtime
        r.mzxid = self.mzxid
        r.version = self.version
        return r


class Store(object):
    """The ensemble state.  `clock()` returns integer milliseconds."""

    def __init__(self, clock):
        self.clock = clock
        self.zxid = 0
        self.nodes = {'/': Rec(b'', 0, 0)}
        self.kids = {'/': set()}                  # path -> set of child names
        self.seq = collections.Counter()          # parent path -> next sequence number
        self.next_session = 1
        self.live = set()
        # sub-second part of the write clock (ZooKeeper stamps milliseconds): within one virtual second the
        # nodes register presence at +200 ms (the harness lowers `ms_off` while it does that) and everything
        # else - the master's writes in particular - happens at +500 ms
        self.ms_off = 500

    def _now(self):
        return self.clock() + self.ms_off

    # -- copying ---------------------------------------------------------------------------
    def clone(self, clock=None):
        s = Store(clock or self.clock)
        s.zxid = self.zxid
        s.nodes = {p: r.copy() for p, r in self.nodes.items()}
        s.kids = {p: set(k) for p, k in self.kids.items()}
        s.seq = collections.Counter(self.seq)
        s.next_session = self.next_session
        s.live = set(self.live)
        s.ms_off = self.ms_off
        return s

    # -- sessions --------------------------------------------------------------------------
    def new_session(self):
        s = self.next_session
        self.next_session += 1
        self.live.add(s)
        return s

    def expire(self, session):
        """Session expiry: its ephemeral nodes are deleted."""
        self.live.discard(session)
        for p in sorted(p for p, r in self.nodes.items() if r.owner == session):
            self._delete(p)

    # -- primitives ------------------------------------------------------------------------
    @staticmethod
    def parent(path):
        return path.rsplit('/', 1)[0] or '/'

    def children(self, path):
        return sorted(self.kids.get(path, ()))

    def stat(self, path):
        r = self.nodes[path]
        return ZnodeStat(r.czxid, r.mzxid, r.ctime, r.mtime, r.version, 0, 0, r.owner or 0,
                         len(r.data), len(self.kids.get(path, ())), r.czxid)

    def _create(self, path, data, owner=None):
        self.zxid += 1
        self.nodes[path] = Rec(data, self._now(), self.zxid, owner)
        self.kids[path] = set()
        self.kids[self.parent(path)].add(path.rsplit('/', 1)[1])

    def _set(self, path, data):
        self.zxid += 1
        r = self.nodes[path]
        r.data = data
        r.mtime = self._now()
        r.mzxid = self.zxid
        r.version += 1

    def _delete(self, path):
        self.zxid += 1
        del self.nodes[path]
        del self.kids[path]
        self.kids[self.parent(path)].discard(path.rsplit('/', 1)[1])

    def apply(self, entry):
        """Replay one logged write."""
        kind, path, data = entry
        if kind == 'create':
            self._create(path, data)
        elif kind == 'set':
            self._set(path, data)
        else:
            self._delete(path)


class _Handler(object):
    @staticmethod
    def event_object():
        return threading.Event()


class Client(object):
    """kazoo-like client bound to one session of a `Store`."""

    def __init__(self, store):
        self.store = store
        self.session = store.new_session()
        self.handler = _Handler()
        self.cut = None
        self.writes = 0
        self.log = []
        self.ChildrenWatch = None       # pylint: disable=invalid-name

    # -- hook ------------------------------------------------------------------------------
    cut_kind = None             # 'loss': the write at the cut fails ONCE with a lost connection (the client lives on)
    loss_fired = False

    def _write(self, kind, path, data):
        if self.cut is not None and self.writes >= self.cut:
            if self.cut_kind == 'loss':
                self.cut = None
                self.loss_fired = True
                raise ke.ConnectionLoss()
            raise Cut()
        self.writes += 1
        self.log.append((kind, path, data))

    # -- acl helpers (opaque) --------------------------------------------------------------
    def make_servers_acl(self):
        return 'servers:rwcda'

    def make_servers_del_acl(self):
        return 'servers:d'

    def make_default_acl(self, acls):
        return ['default'] + list(acls or [])

    # -- reads -----------------------------------------------------------------------------
    reads = 0
    fail_read_at = None        # armed: the read with this index fails once with a lost connection
    read_fault_fired = False

    def _read(self):
        n = self.reads
        self.reads = n + 1
        if self.fail_read_at is not None and n == self.fail_read_at:
            self.fail_read_at = None
            self.read_fault_fired = True
            raise ke.ConnectionLoss()

    def exists(self, path, watch=None):
        self._read()
        return self.store.stat(path) if path in self.store.nodes else None

    vanish_on_read = None      # a node that somebody else deletes right after this client's next read of it

    def get(self, path, watch=None):
        self._read()
        if path not in self.store.nodes:
            raise ke.NoNodeError()
        out = self.store.nodes[path].data, self.store.stat(path)
        if path == self.vanish_on_read:
            type(self).vanish_on_read = None
            self.vanish_on_read = None
            del self.store.nodes[path]
        return out

    def get_children(self, path, watch=None):
        self._read()
        if path not in self.store.nodes:
            raise ke.NoNodeError()
        return self.store.children(path)

    # -- writes ----------------------------------------------------------------------------
    def ensure_path(self, path, acl=None):
        missing = []
        p = path
        while p not in self.store.nodes:
            missing.append(p)
            p = Store.parent(p)
        for q in reversed(missing):
            if self.store.nodes[Store.parent(q)].owner is not None:
                raise ke.NoChildrenForEphemeralsError()
            self._write('create', q, b'')
            self.store._create(q, b'')
        return True

    def create(self, path, value=b'', acl=None, ephemeral=False, sequence=False, makepath=False):
        if not isinstance(value, bytes):
            raise TypeError('value must be bytes')
        st = self.store
        par = Store.parent(path)
        if sequence:
            path = '%s%010d' % (path, st.seq[par])
        if path in st.nodes:
            raise ke.NodeExistsError()
        if par not in st.nodes:
            if not makepath:
                raise ke.NoNodeError()
            self.ensure_path(par)
        if st.nodes[par].owner is not None:
            raise ke.NoChildrenForEphemeralsError()
        self._write('create', path, value)
        if sequence:
            st.seq[par] += 1
        st._create(path, value, self.session if ephemeral else None)
        return path

    def set(self, path, value, version=-1):
        if not isinstance(value, bytes):
            raise TypeError('value must be bytes')
        if path not in self.store.nodes:
            raise ke.NoNodeError()
        self._write('set', path, value)
        self.store._set(path, value)
        return self.store.stat(path)

    def set_acls(self, path, acls, version=-1):
        if path not in self.store.nodes:
            raise ke.NoNodeError()

    def delete(self, path, version=-1, recursive=False):
        st = self.store
        if path not in st.nodes:
            raise ke.NoNodeError()
        if st.kids[path]:
            if not recursive:
                raise ke.NotEmptyError()
            for c in st.children(path):
                self.delete(path.rstrip('/') + '/' + c, recursive=True)
        self._write('delete', path, None)
        st._delete(path)
