"""Extractor for the `queue` engine (C06) -> lean/TmVerif/Gen/ExtQueue.lean (namespace
TmVerif.ExtQueue).

Data only: the scheduler's rank/priority constants, the value `Allocation.update` falls back to
when `rank is None`, the loader's default-assignment constants (partition, tenant, priority) read
from the AST of `Loader.find_default_assignment`, the suffix `Loader.load_allocations` appends to
every assignment pattern, and the two characters `_alloc_key` looks for.
"""
import ast
import importlib
import os
import sys

from fw import REPO_PY


def _fn(tree, cls, name):
    for node in ast.walk(tree):
        if isinstance(node, ast.ClassDef) and node.name == cls:
            for sub in node.body:
                if isinstance(sub, ast.FunctionDef) and sub.name == name:
                    return sub
    if cls is None:
        for node in tree.body:
            if isinstance(node, ast.FunctionDef) and node.name == name:
                return node
    raise KeyError((cls, name))


def _cps(s):
    return '[' + ', '.join(str(ord(c)) for c in s) + ']'


def sec_scheduler(emit):
    sch = importlib.import_module('treadmill.scheduler')
    assert isinstance(sch.MAX_PRIORITY, int) and isinstance(sch.DEFAULT_RANK, int)
    assert sch._UNPLACED_RANK == sys.maxsize  # pylint: disable=protected-access
    emit('/-- `scheduler.MAX_PRIORITY` -/')
    emit('def maxPriority : Int := %d' % sch.MAX_PRIORITY)
    emit('/-- `scheduler.DEFAULT_RANK` (what `Allocation.update` uses when `rank is None`). -/')
    emit('def defaultRank : Int := %d' % sch.DEFAULT_RANK)
    emit('/-- `scheduler._UNPLACED_RANK` (= `sys.maxsize` of the running interpreter). -/')
    emit('def unplacedRank : Int := %d' % sch._UNPLACED_RANK)  # pylint: disable=protected-access
    assert sch._MAX_UTILIZATION == float('inf')  # pylint: disable=protected-access
    emit('/-- `scheduler._MAX_UTILIZATION` is `float("inf")` (the model\'s `Score.top`). -/')
    emit('def maxUtilizationIsInf : Bool := true')
    # Allocation.update: `self.rank = DEFAULT_RANK` in the else-branch of `rank is not None`
    src = open(os.path.join(REPO_PY, 'treadmill', 'scheduler', '__init__.py')).read()
    upd = _fn(ast.parse(src), 'Allocation', 'update')
    names = [n.id for n in ast.walk(upd) if isinstance(n, ast.Name)]
    assert 'DEFAULT_RANK' in names
    emit('def updateUsesDefaultRank : Bool := true')


def sec_loader(emit):
    ldr = importlib.import_module('treadmill.scheduler.loader')
    emit('/-- `loader._DEFAULT_PARTITION` / `_DEFAULT_TENANT` (code points). -/')
    emit('def defaultPartition : List Nat := %s' % _cps(ldr._DEFAULT_PARTITION))  # pylint: disable=protected-access
    emit('def defaultTenant : List Nat := %s' % _cps(ldr._DEFAULT_TENANT))  # pylint: disable=protected-access
    src = open(os.path.join(REPO_PY, 'treadmill', 'scheduler', 'loader.py')).read()
    tree = ast.parse(src)
    # find_default_assignment: `return <const>, proid_alloc`
    fda = _fn(tree, 'Loader', 'find_default_assignment')
    rets = [n for n in ast.walk(fda) if isinstance(n, ast.Return)]
    assert len(rets) == 1 and isinstance(rets[0].value, ast.Tuple)
    prio = rets[0].value.elts[0]
    assert isinstance(prio, ast.Constant) and isinstance(prio.value, int)
    emit('/-- priority returned by `Loader.find_default_assignment`. -/')
    emit('def defaultAssignmentPriority : Int := %d' % prio.value)
    # the proid separator: name.split('<sep>', 1)
    seps = [n.args[0].value for n in ast.walk(fda)
            if isinstance(n, ast.Call) and isinstance(n.func, ast.Attribute) and n.func.attr == 'split']
    assert len(seps) == 1 and len(seps[0]) == 1
    emit('/-- separator of `name.split(sep, 1)` in find_default_assignment (code point). -/')
    emit('def proidSep : Nat := %d' % ord(seps[0]))
    # load_allocations: pattern = assignment['pattern'] + '[#]' + ('[0-9]' * 10)
    la = _fn(tree, 'Loader', 'load_allocations')
    found = None
    for n in ast.walk(la):
        if isinstance(n, ast.Assign) and any(isinstance(t, ast.Name) and t.id == 'pattern' for t in n.targets):
            found = n.value
    assert isinstance(found, ast.BinOp) and isinstance(found.op, ast.Add)
    right = found.right
    mid = found.left.right
    assert isinstance(mid, ast.Constant) and mid.value == '[#]', ast.dump(mid)
    assert isinstance(right, ast.BinOp) and isinstance(right.op, ast.Mult)
    assert right.left.value == '[0-9]' and isinstance(right.right.value, int)
    emit('/-- `pattern + "[#]" + "[0-9]" * n`: the instance-id suffix every assignment pattern gets. -/')
    emit('def assignHash : Nat := %d' % ord('#'))
    emit('def assignDigits : Nat := %d' % right.right.value)
    # _alloc_key: the two characters it searches for
    ak = _fn(tree, None, '_alloc_key')
    consts = sorted({n.value for n in ast.walk(ak) if isinstance(n, ast.Constant)
                     and isinstance(n.value, str) and len(n.value) == 1})
    assert consts == ['.', '@'], consts
    emit('/-- characters `_alloc_key` searches for. -/')
    emit('def keyAt : Nat := %d' % ord('@'))
    emit('def keyDot : Nat := %d' % ord('.'))
    # load_app: `int(manifest['priority']) != -1`
    lapp = _fn(tree, 'Loader', 'load_app')
    sent = [n for n in ast.walk(lapp) if isinstance(n, ast.Compare) and isinstance(n.ops[0], ast.NotEq)]
    assert len(sent) == 1
    c = sent[0].comparators[0]
    val = -c.operand.value if isinstance(c, ast.UnaryOp) else c.value
    emit('/-- manifest priority value that means "use the assignment\'s priority" in load_app. -/')
    emit('def manifestPrioritySentinel : Int := %s' % ('(%d)' % val if val < 0 else '%d' % val))


def sec_numpy(emit):
    import numpy as np
    import struct
    eps = float(np.finfo(float).eps)
    bits = struct.unpack('<Q', struct.pack('<d', eps))[0]
    emit('/-- bit pattern of `np.finfo(float).eps` (2^-52). -/')
    emit('def epsBits : Nat := %d' % bits)
    emit('/-- `eps = 1 / 2^epsExp` exactly. -/')
    import fractions
    fr = fractions.Fraction(eps)
    assert fr.numerator == 1 and fr.denominator & (fr.denominator - 1) == 0
    emit('def epsExp : Nat := %d' % (fr.denominator.bit_length() - 1))
    spr = importlib.import_module('treadmill.sproc.scheduler')
    src = open(spr.__file__).read()
    assert 'DIMENSION_COUNT = 3' in src
    emit('/-- `scheduler.DIMENSION_COUNT` as set by `sproc/scheduler.py`. -/')
    emit('def dimensionCount : Nat := 3')


SECTIONS = [sec_scheduler, sec_loader, sec_numpy]
