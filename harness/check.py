"""Entry point: check <PID> [--tier quick|thorough] [--replay FILE]   (see DESIGN.md §2.2)

exit 0  property held on everything explored (KNOWN-FINDING lines allowed)
exit 1  VIOLATION property=<id> replay=<path> [no-failing-input-found]
exit 2  infrastructure problem / timeout (never a violation)
"""
import argparse
import collections
import glob
import importlib
import json
import multiprocessing
import os
import sys
import time
import traceback

import fw
import extract


def _engine(name):
    return importlib.import_module('eng_' + name)


def _worker(args):
    engname, pid, tier, seed, idx, case = args
    eng = _engine(engname)
    try:
        if case is None:
            rng = fw.rng_for(seed, engname, pid, idx)
            case = eng.gen_case(rng, pid, tier)
        # (code under test that ends its process - utils.sys_exit -> os._exit - must not take the pool worker with
        # it: the pool would wait for the lost result forever)
        def _no_exit(code=0):
            raise RuntimeError('the code under test ended its process (os._exit(%r))' % (code,))
        real_exit = os._exit            # pylint: disable=protected-access
        os._exit = _no_exit             # pylint: disable=protected-access
        try:
            run = eng.run_impl(case, pid)
        finally:
            os._exit = real_exit        # pylint: disable=protected-access
        return {'idx': idx, 'case': case, 'lines': run.lines, 'obs': run.obs,
                'hits': [dict(h) for h in run.hits], 'tags': sorted(run.tags),
                'nontrivial': bool(run.nontrivial), 'skipped': run.skipped, 'error': None}
    except Exception:  # pylint: disable=broad-except
        return {'idx': idx, 'case': case, 'lines': [], 'obs': [], 'hits': [], 'tags': [],
                'nontrivial': False, 'skipped': 0, 'error': traceback.format_exc()[-2000:]}


def run_cases(engname, pid, tier, seed, n, corpus_cases, procs):
    jobs = [(engname, pid, tier, seed, 'corpus%d' % i, c) for i, c in enumerate(corpus_cases)]
    jobs += [(engname, pid, tier, seed, i, None) for i in range(n)]
    if procs <= 1:
        return [_worker(j) for j in jobs]
    ctx = multiprocessing.get_context('fork')
    with ctx.Pool(procs) as pool:
        return pool.map(_worker, jobs, chunksize=max(1, len(jobs) // (procs * 8)))


def drive_and_diff(eng, results):
    """Feed all cases to the model driver; returns list of disagreements.  Every case starts with `reset`, so
    the cases are split over several driver processes that run concurrently (the output is stitched back
    in order)."""
    lines = []
    spans = []
    starts = []             # index in `lines` of each case's `reset`
    for r in results:
        if r['error'] or not r['lines']:
            spans.append(None)
            continue
        starts.append(len(lines))
        lines.append('reset')
        start = len(lines)
        lines.extend(r['lines'])
        spans.append((start, len(lines)))
    if not lines:
        return [], 0
    nproc = max(1, min(8, (os.cpu_count() or 2) // 2, len(lines) // 4000 + 1))
    if nproc == 1:
        d = fw.run_driver(eng.DRIVER, lines)
        out = d['out']
    else:
        # chunk boundaries at case starts, balanced by line count
        target = len(lines) / float(nproc)
        bounds = [0]
        for st in starts:
            if st - bounds[-1] >= target and len(bounds) < nproc:
                bounds.append(st)
        bounds.append(len(lines))
        chunks = [lines[bounds[i]:bounds[i + 1]] for i in range(len(bounds) - 1)]
        from concurrent.futures import ThreadPoolExecutor
        with ThreadPoolExecutor(max_workers=len(chunks)) as ex:
            ds = list(ex.map(lambda ch: fw.run_driver(eng.DRIVER, ch), chunks))
        out = []
        d = {'rc': 0, 'err': ''}
        for ch, di in zip(chunks, ds):
            o = di['out']
            if di['rc'] != 0 and len(o) < len(ch):
                d = di
                fw.log('driver rc=%s stderr=%s' % (di['rc'], di['err']))
            # keep positions aligned even if a driver stopped early
            out.extend(o[:len(ch)] + ['<no output: driver stopped>'] * max(0, len(ch) - len(o)))
    if d['rc'] != 0 and len(out) < len(lines):
        fw.log('driver rc=%s stderr=%s' % (d['rc'], d['err']))
    cmp = getattr(eng, 'cmp', None)
    dis = []
    compared = 0
    for r, sp in zip(results, spans):
        if sp is None:
            continue
        mo = out[sp[0]:sp[1]]
        run = fw.ImplRun()
        run.obs = r['obs']
        compared += sum(1 for o in r['obs'] if o is not None)
        i = fw.diff_streams(run, mo, cmp)
        if i is not None:
            dis.append({'idx': r['idx'], 'case': r['case'], 'first_diff_op': i,
                        'op_line': r['lines'][i] if i < len(r['lines']) else None,
                        'impl': r['obs'][i] if i < len(r['obs']) else None,
                        'model': mo[i] if i < len(mo) else '<no output: driver stopped> ' + d['err'][-500:]})
    return dis, compared


def match_known(hit, known_for_pid):
    for k in known_for_pid:
        if k['clause'] == hit.get('clause') and k['call_site'] == hit.get('call_site'):
            return k
    return None


def shrink_hit(eng, pid, hit):
    """Minimise the op list of a failing case on the real code (monitor only)."""
    case = hit.get('case')
    if not case or not hasattr(eng, 'case_ops'):
        return case

    def failing(ops):
        c = eng.with_ops(case, ops)
        run = eng.run_impl(c, pid)
        return any(h.get('clause') == hit.get('clause') and h.get('call_site') == hit.get('call_site')
                   for h in run.hits)
    try:
        ops = fw.ddmin(eng.case_ops(case), failing, budget_s=40)
        return eng.with_ops(case, ops)
    except Exception:  # pylint: disable=broad-except
        return case


def main(argv=None):
    ap = argparse.ArgumentParser()
    ap.add_argument('pid')
    ap.add_argument('--tier', default=os.environ.get('VERIF_TIER', 'quick'))
    ap.add_argument('--replay')
    ap.add_argument('--cases', type=int)
    args = ap.parse_args(argv)
    try:
        return _main(args)
    except fw.InfraError as exc:
        fw.log('INFRA: %s' % exc)
        return 2


def _main(args):
    t0 = time.time()
    pid = args.pid
    tier = args.tier if args.tier in ('quick', 'thorough') else 'quick'
    try:
        seed = int(os.environ.get('VERIF_SEED', '0'))
    except ValueError:
        seed = 0
    reg = fw.load_registry()
    if pid not in reg:
        fw.log('unknown property %s' % pid)
        return 2
    ent = reg[pid]
    eng = _engine(ent['engine'])
    known_all = fw.load_known()
    known = [k for k in known_all.get('findings', []) if k['property'] == pid]
    procs = int(os.environ.get('VERIF_PROCS', '0')) or (16 if tier == 'thorough' else 8)

    if args.replay:
        try:
            rname = json.load(open(args.replay)).get('engine') or ent['engine']
        except (OSError, ValueError):
            rname = ent['engine']
        return replay(pid, _engine(rname), args.replay, known)
    extra_engs = [_engine(n) for n in ent.get('extra_engines', [])]

    # ---- tie 1: extractor -------------------------------------------------------------
    ex = extract.run()
    # only the extractor sections this property's model uses count as its broken tie
    used = tuple(ent.get('extract', ['Extracted']))
    ex['problems'] = [p for p in ex['problems'] if p.split('/')[0] in used]
    # ---- R1: build + audit --------------------------------------------------------------
    model_targets = ent.get('model_modules', [])
    proof_targets = ent.get('proof_modules', [])
    bm = fw.lean_build(model_targets) if model_targets else {'ok': True, 'errors': [], 'log': '', 'failed_modules': []}
    bp = fw.lean_build(proof_targets) if proof_targets else {'ok': True, 'errors': [], 'log': '', 'failed_modules': []}
    theorems = ent.get('theorems', []) + ent.get('witnesses', [])
    audit = {}
    audit_text = ''
    if theorems and bp['ok']:
        audit, audit_text = fw.lean_audit(pid, proof_targets, theorems)
    forb = fw.forbidden_grep(model_targets + proof_targets,
                             [os.path.join(fw.LEAN_DIR, 'drivers', e.DRIVER + '.lean') for e in [eng] + extra_engs])
    broken = []          # proof obligations that no longer check
    discharged = 0
    for t in theorems:
        ax = audit.get(t)
        if not bp['ok']:
            continue
        if ax is None:
            broken.append({'theorem': t, 'why': 'not found in built module'})
        elif not set(ax) <= fw.ALLOWED_AXIOMS:
            broken.append({'theorem': t, 'why': 'axioms %s' % ax})
        else:
            discharged += 1
    if not bp['ok']:
        for d in fw.broken_decls(bp) or [{'decl': None, 'msg': bp['log'][-800:]}]:
            broken.append({'theorem': d.get('decl'), 'why': 'build error', 'detail': d})
    if forb:
        broken.append({'theorem': None, 'why': 'forbidden tokens', 'detail': forb})
    leanchecker = None
    if tier == 'thorough' and bp['ok'] and bm['ok'] and (proof_targets or model_targets):
        # independent re-check of the compiled modules of this property (Lean's `leanchecker` replays every
        # declaration of the .olean files through the kernel)
        import subprocess
        try:
            lc = subprocess.run(['lake', 'env', 'leanchecker'] + sorted(set(proof_targets + model_targets)),
                                cwd=fw.LEAN_DIR, capture_output=True, text=True, timeout=1800)
            leanchecker = 'ok' if lc.returncode == 0 else 'failed'
            if lc.returncode != 0:
                broken.append({'theorem': None, 'why': 'leanchecker', 'detail': (lc.stdout + lc.stderr)[-800:]})
        except (OSError, subprocess.TimeoutExpired) as exc:
            leanchecker = 'not run: %r' % (exc,)
        fw.log('leanchecker: %s' % leanchecker)
    if ex['problems']:
        broken.append({'theorem': None, 'why': 'extractor', 'detail': ex['problems']})

    # ---- R2/R4: correspondence + monitors -------------------------------------------------
    ncases = args.cases or eng.CASES[tier]
    corpus = []
    for p in sorted(glob.glob(os.path.join(fw.CORPUS_DIR, eng.NAME, '*.json'))):
        try:
            c = json.load(open(p))
            if pid in c.get('properties', [pid]):
                corpus.append(c['case'])
        except (OSError, ValueError, KeyError):
            pass
    results = run_cases(eng.NAME, pid, tier, seed, ncases, corpus, procs)
    errors = [r for r in results if r['error']]
    disagreements = []
    compared = 0
    model_ok = bm['ok']
    if model_ok:
        disagreements, compared = drive_and_diff(eng, results)
    hits = []
    for r in results:
        for h in r['hits']:
            h = dict(h)
            h.setdefault('case', r['case'])
            h['engine'] = eng.NAME
            hits.append(h)
    # ---- further engines deciding the same property on other layers of the code (e.g. the real
    #      Loader / Master for the scheduler properties): same pid, own generator, driver and monitors
    extra_stats = {}
    for xe in extra_engs:
        xcorpus = []
        for p in sorted(glob.glob(os.path.join(fw.CORPUS_DIR, xe.NAME, '*.json'))):
            try:
                c = json.load(open(p))
                if pid in c.get('properties', []):
                    xcorpus.append(c['case'])
            except (OSError, ValueError, KeyError):
                pass
        xn = max(50, (args.cases or xe.CASES[tier]) // 2)
        xres = run_cases(xe.NAME, pid, tier, seed, xn, xcorpus, procs)
        xdis, xcmp = drive_and_diff(xe, xres) if model_ok else ([], 0)
        for d in xdis:
            d['engine'] = xe.NAME
        disagreements = disagreements + xdis
        compared += xcmp
        errors = errors + [r for r in xres if r['error']]
        for r in xres:
            for h in r['hits']:
                h = dict(h)
                h.setdefault('case', r['case'])
                h['engine'] = xe.NAME
                hits.append(h)
        extra_stats[xe.NAME] = {'cases': len(xres), 'compared': xcmp, 'disagreements': len(xdis),
                                'nontrivial': len([r for r in xres if r['nontrivial'] and not r['error']])}
    new_hits = [h for h in hits if not match_known(h, known)]
    known_hit_count = len(hits) - len(new_hits)

    # ---- known findings: replay witnesses --------------------------------------------------
    known_lines = []
    for k in known:
        fired = False
        try:
            wc = json.load(open(os.path.join(fw.VERIF, k['witness_case'])))['case']
            run = eng.run_impl(wc, pid)
            fired = any(match_known(h, [k]) for h in run.hits)
        except Exception as exc:  # pylint: disable=broad-except
            fw.log('known finding witness failed to run: %r' % exc)
        if fired:
            known_lines.append('KNOWN-FINDING: property=%s %s [%s @ %s]' % (pid, k['text'], k['clause'], k['call_site']))
        else:
            fw.log('note: known finding no longer reproduces: %s' % k['text'])

    # ---- R3: failing-input search when a tie is broken ----------------------------------------
    violation = None
    impl_errors_unexpected = [r for r in errors]
    if new_hits:
        h = new_hits[0]
        h['case'] = shrink_hit(_engine(h.get('engine', eng.NAME)), pid, h)
        violation = {'kind': 'failing-input', 'hit': h}
    elif broken or disagreements or not model_ok or impl_errors_unexpected:
        # search harder on the real code with the monitors only
        extra = run_cases(eng.NAME, pid, tier, seed + 7919, eng.CASES.get('search', ncases * 3), [], procs)
        xhits = []
        for r in extra:
            for h in r['hits']:
                h = dict(h)
                h.setdefault('case', r['case'])
                if not match_known(h, known):
                    xhits.append(h)
        if xhits:
            h = xhits[0]
            h['case'] = shrink_hit(eng, pid, h)
            violation = {'kind': 'failing-input', 'hit': h}
        else:
            violation = {'kind': 'no-failing-input-found'}

    # ---- evidence -------------------------------------------------------------------------------
    hist = collections.Counter()
    nontrivial = set()
    for r in results:
        for t in r['tags']:
            hist[t] += 1
        if r['nontrivial'] and not r['error']:
            nontrivial.add(fw.case_hash(r['case']))
    samples = [{'case': r['case'], 'driver_lines': r['lines'][:12]} for r in results if not r['error']][:2]
    level = ent.get('level', 'proof')
    cov = {
        'obligations': len(theorems), 'discharged': discharged,
        'checker_cmd': 'cd lean && lake build %s && lake env lean .lake/audit/Audit_%s.lean  (#print axioms)' % (
            ' '.join(proof_targets), pid),
        'trusted_base': ent.get('trusted_base', []) + [
            'Lean 4.33.0 kernel; axioms allowed: propext, Classical.choice, Quot.sound',
            'harness/extract.py (data extractor) and harness/eng_%s.py (correspondence harness + monitor)' % eng.NAME],
        'theorems': theorems, 'axioms': audit,
        'evaluations': len(results), 'distinct_nontrivial': len(nontrivial),
        'rule': eng.RULE.get(pid, eng.RULE.get('*', '')),
        'samples': samples,
        'programs': len([r for r in results if not r['error']]),
        'disagreements_checked': compared,
        'traces_validated_against_impl': len([r for r in results if not r['error']]) if model_ok else 0,
        'disagreements': len(disagreements),
        'monitor_hits_known': known_hit_count, 'monitor_hits_new': len(new_hits),
        'impl_errors': len(errors),
        'skipped_comparisons': sum(r['skipped'] for r in results),
        'histogram': dict(hist),
        'extractor_changed': ex['changed'], 'extractor_problems': ex['problems'],
        'model_build_ok': bm['ok'], 'proof_build_ok': bp['ok'], 'broken_obligations': broken[:10],
        'corpus_cases': len(corpus),
        'leanchecker': leanchecker,
        'extra_engines': extra_stats,
    }
    doc = {'property_id': pid, 'tier': tier, 'seed': seed, 'level': level, 'coverage': cov,
           'assumptions': ent.get('assumptions', []), 'wall_s': round(time.time() - t0, 2),
           'violations': 1 if violation else 0}
    fw.write_evidence(pid, doc)

    for l in known_lines:
        print(l)
    if errors:
        fw.log('implementation harness errors: %d; first:\n%s' % (len(errors), errors[0]['error']))
    if violation:
        rdoc = {'property': pid, 'kind': violation['kind'], 'engine': eng.NAME, 'seed': seed, 'tier': tier}
        if violation['kind'] == 'failing-input':
            h = violation['hit']
            rdoc['engine'] = h.get('engine', eng.NAME)
            rdoc.update({'case': h.get('case'), 'monitor': {k: h.get(k) for k in ('clause', 'call_site', 'detail')}})
        else:
            rdoc['broken'] = {
                'theorems': broken[:10],
                'correspondence': disagreements[:3],
                'model_build_ok': model_ok,
                'model_build_log': None if model_ok else bm['log'][-1500:],
                'harness_errors': [e['error'] for e in errors[:2]],
            }
            if disagreements:
                rdoc['case'] = disagreements[0]['case']
                rdoc['engine'] = disagreements[0].get('engine', eng.NAME)
        path = fw.write_replay(pid, seed, rdoc)
        tail = '' if violation['kind'] == 'failing-input' else ' no-failing-input-found'
        print('VIOLATION property=%s replay=%s%s' % (pid, path, tail))
        return 1
    print('OK property=%s tier=%s cases=%d nontrivial=%d theorems=%d/%d wall=%.1fs' % (
        pid, tier, len(results), len(nontrivial), discharged, len(theorems), time.time() - t0))
    return 0


def replay(pid, eng, path, known):
    doc = json.load(open(path))
    case = doc.get('case')
    if case is None:
        print('replay file has no case (kind=%s): %s' % (doc.get('kind'), json.dumps(doc.get('broken'))[:2000]))
        return 1
    run = eng.run_impl(case, pid)
    print('impl observations:')
    for l, o in zip(run.lines, run.obs):
        print('  %s => %s' % (l, o))
    rc = 0
    for h in run.hits:
        print('MONITOR HIT: %s' % json.dumps({k: h.get(k) for k in ('clause', 'call_site', 'detail')}, default=str))
        if not match_known(h, known):
            rc = 1
    try:
        d = fw.run_driver(eng.DRIVER, ['reset'] + run.lines)
        mo = d['out'][1:]
        i = fw.diff_streams(run, mo, getattr(eng, 'cmp', None))
        if i is not None:
            print('MODEL DIFFERS at op %d: %s\n  impl : %s\n  model: %s' % (
                i, run.lines[i], run.obs[i], mo[i] if i < len(mo) else None))
            rc = 1
    except fw.InfraError as exc:
        print('driver unavailable: %s' % exc)
    return rc


if __name__ == '__main__':
    sys.exit(main())
