"""Engine `monitor` (C20): real `treadmill.sproc.appmonitor.reevaluate` vs Lean `TmVerif.Monitor`.

The `state` dictionary `reevaluate` works on is the one the real `_run_sync` creates, and it is filled by the
real watch callbacks `_run_sync` registers (`_scheduled_watch` on the children of /scheduled - delivered in
arbitrary order, as ZooKeeper does -, `_appmonitors_watch`, and the per-monitor `_monitor_data_watch` with the
YAML payload): `_run_sync(once=True)` is run once on a fake zk client that records the callbacks.

Case = {'ops': [...]}, ops:
  ['mon', name, count, policy]    state['monitors'][name] = conf (as `_monitor_data_watch` builds it)
  ['delmon', name]
  ['sched', name, [ids]]          state['scheduled'][name] = sorted instance names
  ['tick', dt]
 ['create', name, count, loss]  the cell API's masterapi.create_apps for a create request (loss: index of the create whose reply is lost)
  ['restart']                    the monitor process restarts (new `_run_sync` over the existing nodes)
  ['reconn', lost]                the ZooKeeper connection is suspended (lost=1: session lost) and re-established
  ['eval', {name: outcome}]       outcome of the REST call made for `name` in this evaluation
                                  (ok | nf | br | ve | ex)
Names are small integers (app 'p.a<k>'), instances 'p.a<k>#%010d'.
"""
import collections
import math
import sys
from fractions import Fraction

import mock

import fw

NAME = 'monitor'
DRIVER = 'Monitor'
CASES = {'quick': 400, 'thorough': 8000, 'search': 3000}
RULE = {
    'C20': 'random evaluation sequences (5-40 ops: monitor (re)configuration, deletion, instances '
           'appearing/dying, clock ticks, evaluations with every handled API outcome) on the real '
           'reevaluate() with fake restclient/zk/clock; non-trivial = >=3 evaluations with a count '
           'change or an API failure in between AND at least one create and one delete call issued; '
           'distinct = distinct op-list hash',
}

POLICIES = [None, 'fifo', 'lifo', 'bogus']
DTS = [1, 1, 2, 3, 7, 13, 30, 61, 127, 601, 1801, 3599, 3600, 7200]


def app(n):
    return 'p.a%d' % n


def inst(n, i):
    return '%s#%010d' % (app(n), i)


def gen_case(rng, pid, tier):
    ops = []
    names = list(range(1, rng.randint(2, 4)))
    next_id = [0]
    sched = collections.defaultdict(list)
    big = rng.random() < 0.2
    for _ in range(rng.randint(5, 40)):
        r = rng.random()
        if r < 0.15 or not any(o[0] == 'mon' for o in ops):
            ops.append(['mon', rng.choice(names), rng.randint(0, 50 if big else 8), rng.choice(POLICIES)])
        elif r < 0.19:
            ops.append(['delmon', rng.choice(names)])
        elif r < 0.40:
            n = rng.choice(names)
            for _ in range(rng.randint(1, 4)):
                next_id[0] += 1
                sched[n].append(next_id[0])
            ops.append(['sched', n, sorted(sched[n])])
        elif r < 0.52:
            n = rng.choice(names)
            l = sched[n]
            for _ in range(min(len(l), rng.randint(1, 3))):
                l.pop(rng.randrange(len(l)))
            ops.append(['sched', n, sorted(l)])
        elif r < 0.525:
            ops.append(['create', rng.choice(names), rng.randint(1, 4), rng.choice([None, None, 0, 1, 2, 3])])
        elif r < 0.535:
            ops.append(['restart'])
        elif r < 0.56:
            ops.append(['reconn', 1 if rng.random() < 0.3 else 0])
        elif r < 0.70:
            ops.append(['tick', rng.choice(DTS)])
        else:
            oc = {}
            for n in names:
                x = rng.random()
                if x < 0.08:
                    oc[str(n)] = 'nf'
                elif x < 0.14:
                    oc[str(n)] = 'br'
                elif x < 0.18:
                    oc[str(n)] = 've'
                elif x < 0.26:
                    oc[str(n)] = 'ex'
            ops.append(['eval', oc])
    if not any(o[0] == 'eval' for o in ops):
        ops.append(['eval', {}])
    return {'ops': ops}


def case_ops(case):
    return case['ops']


def with_ops(case, ops):
    return {'ops': list(ops)}


def _published_atomically(callback, children, state, run):
    """The watch callback runs on kazoo's thread while the main loop evaluates once a second: whatever
    `reevaluate` may read of `state['scheduled']` at any point of the callback is the complete old map or the
    complete new one.  The callback is run under a line tracer; the map is looked at before every line of
    `sproc/appmonitor.py` it executes (each is a point where the other thread may run)."""
    def snap():
        m = state.get('scheduled')
        return None if m is None else {k_: list(v_) for k_, v_ in m.items() if v_}
    before = snap()
    seen = []

    def local(frame, event, _arg):
        if event == 'line':
            seen.append((frame.f_lineno, snap()))
        return local

    def tracer(frame, event, _arg):
        if event == 'call' and frame.f_code.co_filename.endswith('appmonitor.py'):
            return local
        return None
    old = sys.gettrace()
    sys.settrace(tracer)
    try:
        callback(children)
    finally:
        sys.settrace(old)
    after = snap()
    for lineno, m in seen:
        if m != before and m != after:
            run.hits.append(fw.Hit(clause='scheduled-map-torn', call_site='_run_sync._scheduled_watch',
                                   detail='at line %d the main loop would read %r: neither the map before the '
                                          'event %r nor the one after it %r' % (lineno, m, before, after)))
            break
    run.tags.add('sched-callback-traced')


def run_impl(case, pid):
    from treadmill.sproc import appmonitor
    from treadmill import restclient

    run = fw.ImplRun()
    now = [1000.0]
    state = None        # created by the real `_run_sync` (captured below)
    last_waited = {}
    exact = {}          # name -> Fraction available: the budget by the history alone (exact arithmetic)
    exact_last = {}     # name -> time of its last refill
    cfg_count = {}      # name -> configured count
    poisoned = False    # a float-boundary floor happened: stop comparing (model uses exact arithmetic)
    calls = []
    alerts = []
    outcome = {}
    n_eval = 0
    n_change = 0
    saw_create = saw_delete = False

    def name_id(nm):
        return int(nm[3:])

    api_box = {}

    def _through_cell_api(nm, insts):
        """The cell API's side of the monitor's delete request: the real `api.instance.API.bulk_delete` (the handler of
        `/instance/_bulk/delete`), with `masterapi.delete_apps` recording what it is asked to delete - exactly the
        instances of the request."""
        if nm == '?' or not insts:
            return
        try:
            if 'api' not in api_box:
                import decorator
                if not hasattr(decorator, 'getargspec'):      # decorator>=5 dropped it; schema.py calls it
                    decorator.getargspec = decorator.getfullargspec
                from treadmill.api import instance as _api_instance
                api_box['mod'] = _api_instance
                api_box['api'] = _api_instance.API()
        except Exception:  # pylint: disable=broad-except
            api_box['api'] = None
        if api_box.get('api') is None:
            run.tags.add('cell-api-unavailable')
            return
        asked = []
        sent = []
        with mock.patch.object(api_box['mod'].masterapi, 'delete_apps',
                               lambda _zk, ids, deleted_by=None: asked.append(list(ids))), \
                mock.patch('treadmill.context.GLOBAL', mock.Mock()):
            try:
                # (the harness' one-letter proid is not a proid the API's schema admits: the same request under `proid`)
                sent = ['proid' + i_[len(nm.partition('.')[0]):] for i_ in insts]
                api_box['api'].bulk_delete('proid', list(sent))
            except Exception as exc:  # pylint: disable=broad-except
                asked.append('raised %r' % (exc,))
        run.tags.add('cell-api-bulk-delete')
        if asked != [list(sent)]:
            run.hits.append(fw.Hit(clause='bulk-delete-differs-from-request', call_site='api.instance.bulk_delete',
                                   detail='the monitor asked for %r, the API handler passed %r to masterapi.delete_apps' % (
                                       insts, asked)))

    def post(_api, url, payload=None, headers=None):
        if url.startswith('/instance/_bulk/delete'):
            insts = list(payload['instances'])
            nm = insts[0].rpartition('#')[0] if insts else '?'
            calls.append(('d', nm, insts))
            _through_cell_api(nm, insts)
            if outcome.get(str(name_id(nm)) if nm != '?' else '?', 'ok') != 'ok':
                raise Exception('delete failed')
            return mock.Mock()
        nm = url[len('/instance/'):url.index('?')]
        cnt = int(url.split('count=')[1])
        calls.append(('c', nm, cnt))
        oc = outcome.get(str(name_id(nm)), 'ok')
        if oc == 'nf':
            raise restclient.NotFoundError('nf')
        if oc == 'br':
            raise restclient.BadRequestError('br')
        if oc == 've':
            raise restclient.ValidationError('ve')
        if oc == 'ex':
            raise Exception('other')
        return mock.Mock()

    # ---- the real glue: `_run_sync` on a recording zk client ------------------------------------------
    import random as _random
    import yaml as _yaml
    shuffle_rng = _random.Random(len(case['ops']) * 7919 + 13)
    watches = {}            # path -> children-watch callback
    data_watches = {}       # monitor name -> data-watch callbacks registered for it (newest last)
    mon_nodes = {}          # monitor name -> yaml payload (the /app-monitors/<name> nodes)
    sched_all = {}          # app name -> instance names (the children of /scheduled)

    import threading as _threading
    import kazoo.exceptions as _ke
    from kazoo.protocol.states import KazooState as _KazooState

    class _Stat(object):
        def __init__(self, czxid, mzxid, version):
            self.czxid, self.mzxid, self.version = czxid, mzxid, version

    class _Event(object):
        def __init__(self, type_, path=None):
            self.type = type_
            self.path = path
            self.state = 'CONNECTED'

    class _Handler(object):
        """kazoo's handler, sequential: spawned functions run at once."""
        @staticmethod
        def lock_object():
            return _threading.Lock()

        @staticmethod
        def sleep_func(_secs):
            return None

        @staticmethod
        def spawn(func, *args, **kwargs):
            return func(*args, **kwargs)

    class _FakeZk(object):
        """Just enough of the kazoo client for `_run_sync` and the REAL zkwatchers.ExistingDataWatch: the
        /app-monitors/<name> nodes with their zxids, one-shot data watches, session listeners."""
        handler = _Handler()

        def __init__(self):
            self.zxid = 100
            self.nodes = {}          # path -> [data bytes, czxid, mzxid, version]
            self.dwatches = {}       # path -> one-shot watch callbacks
            self.listeners = []

        def ChildrenWatch(self, path):                                   # pylint: disable=invalid-name
            def deco(func):
                watches[path] = func
                # kazoo calls the function once on registration, with the children there are
                if path.rstrip('/').endswith('scheduled'):
                    children = [i_ for l_ in sched_all.values() for i_ in l_]
                    shuffle_rng.shuffle(children)
                    func(children)
                else:
                    func(sorted(mon_nodes))
                return func
            return deco

        def add_listener(self, listener):
            if listener not in self.listeners:
                self.listeners.append(listener)

        def remove_listener(self, listener):
            if listener in self.listeners:
                self.listeners.remove(listener)

        def get(self, path, watch=None):
            rec = self.nodes.get(path)
            if rec is None:
                raise _ke.NoNodeError(path)
            if watch is not None:
                self.dwatches.setdefault(path, []).append(watch)
            return rec[0], _Stat(rec[1], rec[2], rec[3])

        def _fire(self, path, type_):
            for w in self.dwatches.pop(path, []):
                w(_Event(type_, path))

        # -- the write API zkutils / masterapi use ------------------------------------------------------
        @staticmethod
        def make_default_acl(acl):
            return ['default'] + list(acl or [])

        loss_at = None           # the reply of the (loss_at+1)-th sequence create from now on is lost
        seq_creates = 0

        def create(self, path, value=b'', acl=None, ephemeral=False, sequence=False, makepath=False):
            if sequence:
                self.seq_no = getattr(self, 'seq_no', 0) + 1
                path = '%s%010d' % (path, self.seq_no)
            if path in self.nodes:
                raise _ke.NodeExistsError(path)
            self.zxid += 1
            self.nodes[path] = [value, self.zxid, self.zxid, 0]
            if sequence:
                self.seq_creates += 1
                if self.loss_at is not None and self.seq_creates == self.loss_at + 1:
                    self.loss_at = None
                    raise _ke.ConnectionLoss('reply lost')       # the ensemble applied the create
            return path

        @staticmethod
        def make_servers_acl():
            return 'servers:rwcda'

        def set(self, path, value, version=-1):
            if path not in self.nodes:
                raise _ke.NoNodeError(path)
            self.put(path, value)

        def set_acls(self, path, acls, version=-1):
            if path not in self.nodes:
                raise _ke.NoNodeError(path)

        def get_children(self, path, watch=None):
            pre = path.rstrip('/') + '/'
            return sorted(p[len(pre):] for p in self.nodes if p.startswith(pre) and '/' not in p[len(pre):])

        def delete(self, path, version=-1, recursive=False):
            if path not in self.nodes:
                raise _ke.NoNodeError(path)
            self.remove(path)

        def put(self, path, data):
            self.zxid += 1
            rec = self.nodes.get(path)
            if rec is None:
                self.nodes[path] = [data, self.zxid, self.zxid, 0]
                return False
            rec[0], rec[2], rec[3] = data, self.zxid, rec[3] + 1
            self._fire(path, 'CHANGED')
            return True

        def remove(self, path):
            self.zxid += 1
            del self.nodes[path]
            self._fire(path, 'DELETED')

        def reconnect(self, lost):
            """SUSPENDED (or LOST: the server forgot the watches) then CONNECTED."""
            if lost:
                self.dwatches.clear()
            for l in list(self.listeners):
                l(_KazooState.LOST if lost else _KazooState.SUSPENDED)
            for l in list(self.listeners):
                l(_KazooState.CONNECTED)

    fzk = _FakeZk()
    from treadmill import zknamespace as _z
    from treadmill.scheduler import masterapi as _masterapi
    fzk.nodes[_z.path.appmonitor()] = [b'', 1, 1, 0]        # /app-monitors (its data: the suspension table)
    intent = {}             # monitor name -> policy the history asked for (None: never given)

    captured = {}

    def capture_reevaluate(_api, _alerter, st, _zk, lw):
        captured['state'] = st
        captured['lw'] = lw
        return lw
    persisted = {}          # what the service last wrote to /app-monitors (read back by a restarted service)

    def alert_f(instance, summary, **kwargs):
        kind = {'Monitor active again': 0, 'Monitor suspended: Rate limited': 1,
                'Monitor suspended: App not configured': 2, 'Monitor suspended: Unable to start': 3,
                'Monitor suspended: Invalid manifest': 4}.get(summary, 9)
        alerts.append('%d:%d' % (name_id(instance), kind))

    zkupd = mock.Mock()
    ctx = mock.Mock()
    ctx.GLOBAL.zk.conn = fzk
    ctx.GLOBAL.cell = 'cell'
    with mock.patch('time.time', lambda: now[0]), \
            mock.patch('time.sleep', lambda _s: None), \
            mock.patch('treadmill.restclient.post', post), \
            mock.patch('treadmill.zkutils.update', zkupd), \
            mock.patch.object(appmonitor, 'context', ctx), \
            mock.patch.object(appmonitor, 'make_alerter', lambda _d, _c: alert_f), \
            mock.patch.object(appmonitor.masterapi, 'get_suspended_appmonitors', lambda _zk: dict(persisted)), \
            mock.patch.object(appmonitor.utils, 'exit_on_unhandled', lambda f: f):
        # the real `_run_sync`, once: it creates `state` and registers the watches
        with mock.patch.object(appmonitor, 'reevaluate', capture_reevaluate):
            appmonitor._run_sync('http://x', '/nonexistent', True)                 # pylint: disable=protected-access
        state = captured['state']
        sched_watch = [f for pth, f in watches.items() if pth.rstrip('/').endswith('scheduled')][0]
        mons_watch = [f for pth, f in watches.items() if not pth.rstrip('/').endswith('scheduled')][0]
        for op in case['ops']:
            k = op[0]
            if k == 'mon':
                _, n, count, policy = op
                # configuration goes through the real masterapi.update_appmonitor (what the API / CLI call);
                # a policy that is not given (None) leaves the configured one as it is
                mpath = _z.path.appmonitor(app(n))
                existed = mpath in fzk.nodes
                z0 = fzk.nodes[mpath][2] if existed else None
                _masterapi.update_appmonitor(fzk, app(n), count, policy)
                z1 = fzk.nodes[mpath][2]
                want = policy if policy is not None else (intent.get(app(n)) if existed else None)
                intent[app(n)] = want
                mon_nodes[app(n)] = True
                if z1 == z0:
                    # nothing was written (same content): no watch fires, the monitor is not reconfigured
                    run.tags.add('mon-unchanged')
                    continue
                if not existed:
                    # a new child of /app-monitors: the children watch fires and sets up the data watch
                    mons_watch(sorted(mon_nodes))
                # (an existing node whose data changed: its data watch fired inside set)
                if policy is None and existed and want is not None:
                    run.tags.add('count-only-update-keeps-policy')
                cfg_count[app(n)] = count
                exact_last[app(n)] = now[0]
                exact[app(n)] = Fraction(2 * count)
                run.op('mon %d %d %s' % (n, count, want if want else 'none'), 'ok')
                n_change += 1
            elif k == 'delmon':
                if app(op[1]) in mon_nodes:
                    del mon_nodes[app(op[1])]
                    intent.pop(app(op[1]), None)
                    _masterapi.delete_appmonitor(fzk, app(op[1]))
                    mons_watch(sorted(mon_nodes))
                exact.pop(app(op[1]), None)
                run.op('delmon %d' % op[1], 'ok')
            elif k == 'sched':
                _, n, ids = op
                sched_all[app(n)] = [inst(n, i) for i in ids]
                children = [i_ for l_ in sched_all.values() for i_ in l_]
                shuffle_rng.shuffle(children)           # ZooKeeper returns children in no particular order
                _published_atomically(sched_watch, children, state, run)
                run.op('sched %d %s' % (n, ','.join(str(i) for i in sorted(ids)) or '-'), 'ok')
                n_change += 1
            elif k == 'reconn':
                # the connection goes SUSPENDED / LOST and comes back; no monitor node changed
                fzk.reconnect(bool(op[1]))
                run.tags.add('reconnect-lost' if op[1] else 'reconnect-suspended')
                run.op('reconn', 'ok')
            elif k == 'create':
                # the cell API's side of a create request: real masterapi.create_apps on the fake ensemble, with
                # the reply of one create possibly lost
                _, n, count, loss = op
                fzk.loss_at, fzk.seq_creates = loss, 0
                before_n = len(fzk.get_children('/scheduled'))
                try:
                    with mock.patch('treadmill.trace.post_zk', lambda *_a, **_k: None):
                        _masterapi.create_apps(fzk, app(n), {'memory': '1G'}, count)
                    res = 'ok'
                except _ke.ConnectionLoss:
                    res = 'lost'
                fzk.loss_at = None
                made = len(fzk.get_children('/scheduled')) - before_n
                run.tags.add('api-create' if loss is None or loss >= count else 'api-create-reply-lost')
                run.op('fcreate %d %s' % (count, '-' if loss is None else loss), '%s %d' % (res, made))
                if made > count:
                    run.hits.append(fw.Hit(clause='created-more-than-asked', call_site='masterapi.create_apps',
                                           detail='asked %d, scheduled %d (reply of create %s lost)' % (count, made, loss)))
                for pth in [q for q in fzk.nodes if q.startswith('/scheduled/')]:
                    del fzk.nodes[pth]
            elif k == 'restart':
                # the monitor process restarts: a new `_run_sync` on the nodes there are - every monitor is picked
                # up in ONE children event, the scheduled instances in one, the suspension table is read back
                with mock.patch.object(appmonitor, 'reevaluate', capture_reevaluate):
                    appmonitor._run_sync('http://x', '/nonexistent', True)             # pylint: disable=protected-access
                state = captured['state']
                last_waited = captured['lw']
                sched_watch = [f for pth, f in watches.items() if pth.rstrip('/').endswith('scheduled')][0]
                mons_watch = [f for pth, f in watches.items() if not pth.rstrip('/').endswith('scheduled')][0]
                run.tags.add('restart')
                if len(state['monitors']) >= 2:
                    run.tags.add('restart-with->=2-monitors')
                run.op('rst %s' % (','.join(str(name_id(n)) for n in sorted(last_waited, key=name_id)) or '-'), 'ok')
                for nm, conf in state['monitors'].items():
                    # (the order in which the restarted service registered them: a Python set's)
                    want = intent.get(nm)
                    run.op('mon %d %d %s' % (name_id(nm), conf['count'], want if want else 'none'), 'ok')
                    cfg_count[nm] = conf['count']
                    exact[nm] = Fraction(2 * conf['count'])
                    exact_last[nm] = now[0]
                for nm in sorted(sched_all, key=name_id):
                    if sched_all[nm]:
                        run.op('sched %d %s' % (name_id(nm), ','.join(
                            str(int(i_.rpartition('#')[2])) for i_ in sorted(sched_all[nm]))), 'ok')
            elif k == 'tick':
                now[0] += op[1]
                run.op('tick %d' % op[1], 'ok')
            elif k == 'eval':
                outcome.clear()
                outcome.update(op[1])
                del calls[:]
                del alerts[:]
                zkupd.reset_mock()
                before = {n: dict(c) for n, c in state['monitors'].items()}
                susp_before = dict(state['suspended'])
                # the instances of each app in creation order, from the history itself (not from the state the
                # watch built)
                grouped = {n: sorted(v) for n, v in sched_all.items() if v}
                # exact shadow refill + boundary detection (harness bookkeeping, not the oracle)
                boundary = False
                for n, c in before.items():
                    if susp_before.get(n, 0) > now[0]:
                        continue
                    mx = Fraction(2 * cfg_count[n])
                    a = exact[n]
                    if a < mx:
                        a2 = a + Fraction(2 * cfg_count[n], 3600) * Fraction(int(now[0] - exact_last[n]))
                        if a2 < mx and a2.denominator == 1 and a2 != a:
                            boundary = True
                        a = min(a2, mx)
                    exact[n] = a
                    exact_last[n] = now[0]
                last_waited = appmonitor.reevaluate('http://x', alert_f, state, mock.Mock(), last_waited)
                n_eval += 1
                modified = zkupd.called
                if modified:
                    persisted.clear()
                    persisted.update(zkupd.call_args[0][2])
                    # what is written must be what is returned
                    if zkupd.call_args[0][2] != last_waited:
                        run.hits.append(fw.Hit(clause='zk-update-differs', call_site='reevaluate',
                                               detail=repr((zkupd.call_args[0][2], last_waited))))
                # ---- monitor: the statement of C20 on the real call log -----------------------------
                per = collections.defaultdict(list)
                for c in calls:
                    per[c[1]].append(c)
                for nm, cs in per.items():
                    kinds = {c[0] for c in cs}
                    if len(kinds) > 1 or len(cs) > 1:
                        run.hits.append(fw.Hit(clause='create-and-delete' if len(kinds) > 1 else 'duplicate-call',
                                               call_site='reevaluate', detail=repr(cs)))
                    if nm not in before:
                        run.hits.append(fw.Hit(clause='deleted-monitor-acted', call_site='reevaluate', detail=nm))
                        continue
                    if susp_before.get(nm, 0) > now[0]:
                        run.hits.append(fw.Hit(clause='suspended-monitor-acted', call_site='reevaluate', detail=nm))
                    count = before[nm]['count']
                    cur = len(grouped.get(nm, []))
                    avail = before[nm]['available']
                    if avail < 2 * count:
                        avail = min(avail + before[nm]['rate'] * (now[0] - before[nm]['last_update']), 2 * count)
                    for c in cs:
                        if c[0] == 'c':
                            saw_create = True
                            if c[2] > count - cur:
                                run.hits.append(fw.Hit(clause='overshoot', call_site='reevaluate',
                                                       detail='%s asked %d, missing %d' % (nm, c[2], count - cur)))
                            if c[2] > math.floor(avail + 1e-9):
                                run.hits.append(fw.Hit(clause='over-budget', call_site='reevaluate',
                                                       detail='%s asked %d, available %r' % (nm, c[2], avail)))
                            # the budget from the history alone (exact arithmetic; 1 token of slack for the
                            # float boundary): configured 2*count, refilled at 2*count/hour, spent by creates
                            if nm in exact and c[2] > math.floor(exact[nm]) + 1:
                                run.hits.append(fw.Hit(clause='over-budget-history', call_site='reevaluate',
                                                       detail='%s asked %d, budget by history %s' % (
                                                           nm, c[2], exact[nm])))
                        else:
                            saw_delete = True
                            surplus = cur - count
                            # the policy the HISTORY configured (a count-only update keeps it), not the one in `state`
                            pol = intent.get(nm) if intent.get(nm) in ('fifo', 'lifo', None) else before[nm].get('policy')
                            pol = pol or 'fifo'
                            exp = grouped[nm][:surplus] if pol == 'fifo' else grouped[nm][-surplus:] if surplus > 0 else []
                            if surplus <= 0 or list(c[2]) != exp:
                                run.hits.append(fw.Hit(clause='delete-set', call_site='reevaluate',
                                                       detail='%s policy %s deleted %r expected %r' % (nm, pol, c[2], exp)))
                for nm, c in state['monitors'].items():
                    if c['available'] < -1e-9:
                        run.hits.append(fw.Hit(clause='negative-budget', call_site='reevaluate',
                                               detail='%s %r' % (nm, c['available'])))
                    if c['available'] > 2 * c['count'] + 1e-9:
                        run.hits.append(fw.Hit(clause='budget-over-cap', call_site='reevaluate',
                                               detail='%s %r' % (nm, c['available'])))
                # ---- observation for the model ------------------------------------------------------
                # spend in the exact shadow
                for c in calls:
                    if c[0] == 'c' and outcome.get(str(name_id(c[1])), 'ok') == 'ok' and c[1] in exact:
                        exact[c[1]] -= c[2]
                if boundary:
                    poisoned = True
                callstr = ','.join(
                    ('c:%d:%d' % (name_id(c[1]), c[2])) if c[0] == 'c' else
                    ('d:%d:%s' % (name_id(c[1]), '.'.join(str(int(i.rpartition('#')[2])) for i in c[2])))
                    for c in calls) or '-'
                waited = ','.join('%d:%d' % (name_id(n), int(t - 1000)) for n, t in
                                  sorted(last_waited.items(), key=lambda kv: name_id(kv[0]))) or '-'
                susp = ','.join('%d:%d' % (name_id(n), int(t - 1000)) for n, t in
                                sorted(state['suspended'].items(), key=lambda kv: name_id(kv[0]))) or '-'
                av = ','.join('%d:%d' % (name_id(n), int(round(c['available'] * 3600)))
                              for n, c in state['monitors'].items()) or '-'
                obs = 'calls=%s alerts=%s waited=%s mod=%s susp=%s avail=%s' % (
                    callstr, ','.join(alerts) or '-', waited, '1' if modified else '0', susp, av)
                oline = 'eval ' + (','.join('%s:%s' % kv for kv in sorted(op[1].items())) or '-')
                if poisoned:
                    run.op(oline, None)
                    run.skipped += 1
                else:
                    run.op(oline, obs)
    run.tags.add('evals=%d' % min(n_eval, 5))
    if saw_create:
        run.tags.add('create')
    if saw_delete:
        run.tags.add('delete')
    if poisoned:
        run.tags.add('float-boundary')
    if any(o[0] == 'eval' and o[1] for o in case['ops']):
        run.tags.add('api-failure')
    run.nontrivial = n_eval >= 3 and saw_create and saw_delete
    return run


def cmp(exp, got):
    """Model prints `exact=<names>`: wait quotients that are exact may differ by 1 s under float
    truncation; those waited entries are compared with tolerance."""
    g = dict(kv.split('=', 1) for kv in got.split(' ') if '=' in kv)
    e = dict(kv.split('=', 1) for kv in exp.split(' ') if '=' in kv)
    exact = set(g.pop('exact', '-').split(',')) - {'-'}
    if set(g) != set(e):
        return False
    for k in e:
        if k == 'waited' and exact:
            gw = dict(x.split(':') for x in g[k].split(',') if ':' in x)
            ew = dict(x.split(':') for x in e[k].split(',') if ':' in x)
            if set(gw) != set(ew):
                return False
            for n in gw:
                if n in exact:
                    if abs(int(gw[n]) - int(ew[n])) > 1:
                        return False
                elif gw[n] != ew[n]:
                    return False
        elif e[k] != g[k]:
            return False
    return True
