"""Engine `appcfg` (C13): real `treadmill.appcfgmgr.AppCfgMgr` on a temporary node root vs Lean
`TmVerif.AppCfg`.

Case = {'mode': ..., 'ops': [...]}, ops (instances are indexes into INST):
  ['fs_create', i, ok]     the event manager writes cache/<inst> (temp file + rename, as
                           `eventmgr._cache` does); ok=False: a manifest `configure` fails on.
                           Queues the inotify event `created <inst>`.
  ['fs_delete', i]         cache/<inst> unlinked; queues `deleted <inst>`
  ['overflow']             the inotify queue overflows: the younger half of the queued events is lost, an IN_Q_OVERFLOW marker follows
  ['cfg_break', i]         the node changes: from now on `configure` raises ContainerSetupError for cache/<inst> (file untouched)
  ['ready', 0|1]           cache/.ready removed / (re)written; queues deleted / created|modified
  ['deliver', n]           the manager's DirWatcher hands the next n queued events (FIFO, as inotify
                           delivers them) to `_on_created/_on_modified/_on_deleted`
  ['ev', kind, name]       an event the handlers must ignore (dot files, temp files, modified
                           manifests, unknown names)
  ['flag', i, kind]        exitinfo | aborted | oom written into running/<inst>/data
  ['finish', i, abort]     real `monitor.MonitorContainerCleanup.execute` for the instance
  ['cleanup', k]           real `cleanup.Cleanup.invoke` for the k-th (sorted) cleanup link
  ['cleanup_all', which]   ... for every link ('cont': only the links `_terminate` made)
  ['restart']              new AppCfgMgr object on the same root; queued events are lost
  ['crash', k]             arms a kill: the next manager activity (handler call) that mutates the node root is
                           killed right BEFORE its k-th file system mutation (os.symlink / rename / replace /
                           unlink / rmdir / mkdir / shutil.rmtree / creation or opening-for-write of a file, counted at
                           the `os` / `shutil` / `open` level, so the calls inside fs.symlink_safe / fs.write_safe /
                           fs.replace / utils.touch are crash points; inside one `appcfg.configure.configure` call only
                           its mutations 1-4 and every 8th later one are crash points); a handler with fewer mutations
                           completes and disarms. After the kill: the mutations the dead handler did make are replayed
                           to the model as primitive lines (`pmkapp`, `prunlink`, `ptermmv`, `pmark`, `pcleanlink`,
                           `pcacherm`, `prmapp`), then `restart` (new manager, idle; queued events lost). The new
                           manager synchronises at the next delivered `.ready` notification (the generator
                           puts one right after the crash in most histories, later or never in the others).
  ['reboot']               node restart: run.sh clears running/ and cleanup/; new manager
  ['startup', j, what, i, ok]  manager restart through the REAL `AppCfgMgr.run()` (until it would block for the second
                           time); right before run()'s j-th statement cache/<i> is created / deleted; a change before
                           run() created its DirWatcher queues no event; at the first wait cache/.ready is re-notified

One driver line per FS change / handler call / environment move; observable after each = the whole
tree: active flag, cache (generation, configurable), apps (marker files), running and cleanup link
tables with targets.
"""
import contextlib
import errno
import io
import os
import random
import shutil
import sys
import tempfile
import time

import mock

import fw

MANIFEST = u"""proid: p
environment: dev
services:
- name: web
  command: /bin/sleep 5
  restart: {limit: 3, interval: 60}
  environ: []
cpu: 10%
memory: 100M
disk: 100M
"""


class _StubRuntimeCls(object):
    """Stand-in for the runtime plugin class looked up by `app_manifest.load`: leaves the manifest alone."""
    name = 'linux'

    @classmethod
    def manifest(cls, _tm_env, _manifest):
        """No runtime specific manifest changes."""


NAME = 'appcfg'
DRIVER = 'AppCfg'
CASES = {'quick': 1500, 'thorough': 15000, 'search': 3000}
RULE = {
    'C13': 'random node histories (10-40 ops: manifests written/removed by the event manager incl. '
           'evict-and-place-again of one instance, FIFO delivery of the queued inotify events with '
           'arbitrary delay, readiness flips, manager restarts, containers flagged/finishing on their '
           'own, cleanup completing at arbitrary later points, the manager killed before the k-th file '
           'system mutation of a handler and restarted) on the real AppCfgMgr over a real '
           'temporary directory; streams: clean (no known-finding trigger), wild, each also with armed '
           'crashes, edge (ignored events, no-op moves); non-trivial = >=1 resynchronisation that found >=2 containers in '
           'apps/ AND a _terminate AND a _configure AND a restart or readiness flip after the first '
           'sync; distinct = distinct op-list hash',
}

INST = ['foo.bar#0000000001', 'foo.bar#0000000002', 'proid.a-b#0000000012', 'x.y-z.w#0000001234']
FLAGS = ['exitinfo', 'aborted', 'oom']
MARKERS = FLAGS + ['terminated']
IGNORED_NAMES = ['.ready.tmp', '.foo.bar#0000000001-a1b2c3', '.seen', 'nocache', 'foo.bar#0000000099']


# --------------------------------------------------------------------------------------
# generator
# --------------------------------------------------------------------------------------

def _gen_clean(rng):
    """Histories that avoid the triggers of the known findings: at a resynchronisation no two
    containers of one instance exist, no container still has the cleanup link `_terminate` made,
    no linked container of a generation other than the cached one; every queued event is
    delivered before the next manifest change."""
    n = rng.randint(2, 4)
    ops = []
    cache = {}      # i -> ok
    cont = {}       # i -> 'run' | 'term' | 'fin'
    st = {'active': False, 'up_ready': False}

    def flush():
        ops.append(['deliver', 99])

    flagged = set()

    def sync_effect():
        for i in list(cont):
            if cont[i] == 'run' and i not in cache:
                cont[i] = 'term'
            elif cont[i] == 'orph':
                cont[i] = 'run' if (i in cache and i not in flagged) else 'fin'
        for i in list(cache):
            if not cache[i]:
                del cache[i]
            elif i not in cont:
                cont[i] = 'run'

    def go_ready():
        ops.append(['cleanup_all', 'all' if rng.random() < 0.3 else 'cont'])
        for i in list(cont):
            if cont[i] == 'term' or (cont[i] == 'fin' and ops[-1][1] == 'all'):
                del cont[i]
                flagged.discard(i)
        ops.append(['ready', 1])
        flush()
        if not st['active']:
            st['active'] = True
            sync_effect()

    if rng.random() < 0.75:
        # prologue: a few instances placed, first synchronisation
        for i in rng.sample(range(n), rng.randint(2, n)):
            ok = rng.random() < 0.9
            ops.append(['fs_create', i, ok])
            cache[i] = ok
        go_ready()
    for _ in range(rng.randint(8, 30)):
        r = rng.random()
        if r < 0.30:
            cands = [i for i in range(n) if i not in cache and i not in cont]
            if not cands:
                continue
            i = rng.choice(cands)
            ok = rng.random() < 0.88
            ops.append(['fs_create', i, ok])
            cache[i] = ok
            flush()
            if st['active']:
                if ok:
                    cont[i] = 'run'
                else:
                    del cache[i]
        elif r < 0.48:
            if not cache:
                continue
            i = rng.choice(sorted(cache))
            ops.append(['fs_delete', i])
            del cache[i]
            flush()
            if st['active'] and cont.get(i) == 'run':
                cont[i] = 'term'
        elif r < 0.58:
            go_ready()
        elif r < 0.66:
            ops.append(['ready', 0])
            flush()
            st['active'] = False
        elif r < 0.72:
            ops.append(['restart'])
            st['active'] = False
        elif r < 0.77:
            ops.append(['reboot'])
            st['active'] = False
            for i in cont:
                cont[i] = 'orph'
        elif r < 0.83:
            run = [i for i in cont if cont[i] == 'run']
            if run:
                i = rng.choice(sorted(run))
                ops.append(['flag', i, rng.choice(FLAGS)])
                flagged.add(i)
        elif r < 0.89:
            run = [i for i in cont if cont[i] == 'run']
            if run:
                i = rng.choice(sorted(run))
                ab = rng.random() < 0.4
                ops.append(['finish', i, ab])
                cont[i] = 'fin'
                if ab:
                    flagged.add(i)
        elif r < 0.96:
            which = 'all' if rng.random() < 0.5 else 'cont'
            ops.append(['cleanup_all', which])
            for i in list(cont):
                if cont[i] == 'term' or (cont[i] == 'fin' and which == 'all'):
                    del cont[i]
                    flagged.discard(i)
        else:
            ops.append(['ev', rng.choice(['created', 'modified', 'deleted']), rng.choice(IGNORED_NAMES)])
    if rng.random() < 0.7:
        go_ready()
    return ops


def _gen_wild(rng, edge):
    n = rng.randint(2, 3) if rng.random() < 0.7 else rng.choice([1, 4])
    ops = []
    if rng.random() < 0.6:
        for i in rng.sample(range(n), rng.randint(1, n)):
            ops.append(['fs_create', i, rng.random() < 0.9])
    if rng.random() < 0.85:
        ops += [['ready', 1], ['deliver', 99]]
    eager = rng.random() < 0.5          # mostly deliver promptly
    r2 = random.Random(repr(rng.getstate()[1][:4]))     # side stream
    for _ in range(rng.randint(8, 34)):
        r = rng.random()
        if r < 0.24:
            ops.append(['fs_create', rng.randrange(n), rng.random() < 0.9])
        elif r < 0.38:
            ops.append(['fs_delete', rng.randrange(n)])
        elif r < 0.56:
            ops.append(['deliver', rng.choice([1, 1, 2, 3, 99])])
        elif r < 0.63:
            ops.append(['ready', 1])
        elif r < 0.68:
            ops.append(['ready', 0])
        elif r < 0.72:
            if r2.random() < 0.5:
                ops.append(['startup', r2.randint(1, 14), r2.choice(['create', 'create', 'delete']), r2.randrange(n),
                            r2.random() < 0.9])
                continue
            ops.append(['restart'])
            if rng.random() < 0.8:
                ops.append(['ready', 1])
                if rng.random() < 0.7:
                    ops.append(['deliver', 99])
        elif r < 0.75:
            ops.append(['reboot'])
            if r2.random() < 0.4:
                # the node comes back changed: a cached instance can no longer be configured
                ops.append(['cfg_break', r2.randrange(n)])
            if rng.random() < 0.8:
                ops.append(['ready', 1])
                if rng.random() < 0.7:
                    ops.append(['deliver', 99])
        elif r < 0.79:
            ops.append(['flag', rng.randrange(n), rng.choice(FLAGS)])
        elif r < 0.85:
            ops.append(['finish', rng.randrange(n), rng.random() < 0.3])
        elif r < 0.95:
            if rng.random() < 0.3:
                ops.append(['cleanup_all', rng.choice(['all', 'cont'])])
            else:
                ops.append(['cleanup', rng.randrange(4)])
        elif edge or r < 0.97:
            ops.append(['ev', rng.choice(['created', 'modified', 'deleted']),
                        rng.choice(IGNORED_NAMES + [rng.randrange(n)])])
        if r2.random() < 0.03:
            ops.append(['cfg_break', r2.randrange(n)])
        if r2.random() < 0.03 and ops and ops[-1][0] in ('fs_create', 'fs_delete'):
            ops.append(['overflow'])
        if eager and ops and ops[-1][0] in ('fs_create', 'fs_delete', 'ready') and rng.random() < 0.8:
            ops.append(['deliver', 99])
    ops.append(['deliver', 99])
    return ops


def _with_crashes(rng, ops, sure_resync):
    """Arm a kill before some of the deliveries: k is small (the first steps of a handler: _terminate's rename
    and touch, the first mutations of configure, a cleanup link of _synchronize) or spread over a whole
    synchronisation (one _configure call has about 8 crash points)."""
    out = []
    n = 0
    for op in ops:
        if op[0] == 'deliver' and n < 4 and rng.random() < 0.45:
            r = rng.random()
            if r < 0.35:
                k = rng.randint(1, 3)
            elif r < 0.75:
                k = rng.randint(4, 10)
            else:
                k = rng.randint(11, 30)
            out.append(['crash', k])
            n += 1
            out.append(op)
            if sure_resync or rng.random() < 0.7:
                # the event manager's periodic notification: the restarted manager synchronises (a no-op when the
                # handler completed and the manager is still active)
                out += [['ready', 1], ['deliver', 1]]
            continue
        out.append(op)
    return out


def gen_case(rng, pid, tier):
    r = rng.random()
    if r < 0.32:
        return {'mode': 'clean', 'ops': _gen_clean(rng)}
    if r < 0.50:
        return {'mode': 'clean+crash', 'ops': _with_crashes(rng, _gen_clean(rng), True)}
    if r < 0.78:
        return {'mode': 'wild', 'ops': _gen_wild(rng, False)}
    if r < 0.90:
        return {'mode': 'wild+crash', 'ops': _with_crashes(rng, _gen_wild(rng, False), False)}
    return {'mode': 'edge', 'ops': _gen_wild(rng, True)}


def case_ops(case):
    return case['ops']


def with_ops(case, ops):
    return {'mode': case.get('mode', 'wild'), 'ops': list(ops)}


# --------------------------------------------------------------------------------------
# the property, stated on two snapshots of the real directory tree (independent of the model)
# --------------------------------------------------------------------------------------

def _link_kind(dirname, name, cname, app_name):
    if dirname == 'running':
        return 'running' if name == app_name(cname) else 'running/<other>'
    if name == cname:
        return 'cleanup/<container>'
    if name == app_name(cname):
        return 'cleanup/<instance>'
    return 'cleanup/<other>'


def _links_to(snap, cname):
    return ([('running', n) for n, t in sorted(snap['running'].items()) if t == cname] +
            [('cleanup', n) for n, t in sorted(snap['cleanup'].items()) if t == cname])


def _maker(prims, dirname, name):
    """call site of the last primitive of this handler that (re)placed <dirname>/<name>"""
    for p in reversed(prims):
        if p['dst'] == (dirname, name):
            return p['site']
    return None


def _remover(prims, dirname, name):
    for p in reversed(prims):
        if p.get('src') == (dirname, name):
            return p['site']
    return None


def monitor_single_ref(post, prims, app_name, where):
    hits = []
    for cname in sorted(post['apps']):
        links = _links_to(post, cname)
        if len(links) > 1:
            kinds = sorted(_link_kind(d, n, cname, app_name) for d, n in links)
            site = None
            for p in reversed(prims):
                if p['dst'] in links and p['target'] == cname:
                    site = p['site']
                    break
            hits.append(fw.Hit(clause='single-ref:' + '+'.join(kinds), call_site=site or where,
                               detail='%s referenced by %r' % (cname, links)))
    return hits


def monitor_handler(kind, name, pre, post, prims, synced, app_name):
    """C13 on one handler call of the real manager: pre/post snapshots, primitive log."""
    hits = []
    flagged_pre = {c for c, m in pre['apps'].items() if set(m) & set(FLAGS)}
    incleanup_pre = set(pre['cleanup'].values())
    # -- keep: a running container whose manifest is unchanged is left running --------------------
    for inst, cname in sorted(pre['running'].items()):
        if cname not in pre['apps']:
            continue
        if pre['cache'].get(inst, (None,))[0] != cname or post['cache'].get(inst, (None,))[0] != cname:
            continue
        bad = None
        if post['running'].get(inst) != cname:
            bad = 'running link now %r' % (post['running'].get(inst),)
        elif 'terminated' in post['apps'].get(cname, ()) and 'terminated' not in pre['apps'][cname]:
            bad = 'marked terminated'
        elif cname not in post['apps']:
            bad = 'container removed'
        if bad:
            site = _remover(prims, 'running', inst) or _maker(prims, 'running', inst) or ('%s:untraced' % kind)
            hits.append(fw.Hit(clause='keep', call_site=site,
                               detail='%s -> %s (cached, unchanged): %s' % (inst, cname, bad)))
    # -- no-restart: a finished/aborted/oom container is never linked into running again ----------
    for inst, cname in sorted(post['running'].items()):
        if cname in flagged_pre and pre['running'].get(inst) != cname:
            hits.append(fw.Hit(clause='no-restart',
                               call_site=_maker(prims, 'running', inst) or ('%s:untraced' % kind),
                               detail='%s %r linked into running/%s' % (cname, pre['apps'][cname], inst)))
    # -- handoff on a delete event ------------------------------------------------------------------
    if kind == 'deleted' and name in pre['running'] and pre['active'] and name not in post['cache']:
        cname = pre['running'][name]
        if cname in post['apps'] and (post['running'].get(name) == cname or
                                      cname not in post['cleanup'].values()):
            hits.append(fw.Hit(clause='handoff', call_site='_on_deleted',
                               detail='%s not handed to cleanup' % cname))
    if synced:
        # -- sync: running links = configurable cached manifests ----------------------------------
        for inst, cname in sorted(post['running'].items()):
            if cname not in post['apps'] or post['cache'].get(inst, (None,))[0] != cname:
                hits.append(fw.Hit(clause='sync:running-not-cached',
                                   call_site=_maker(prims, 'running', inst) or '_synchronize:left-running',
                                   detail='running/%s -> %s, cache has %r' % (inst, cname, post['cache'].get(inst))))
        for inst, (cname, ok) in sorted(post['cache'].items()):
            if post['running'].get(inst) == cname or not ok:
                continue
            if cname in pre['apps'] and (cname in flagged_pre or cname in incleanup_pre):
                continue            # finished or already handed to cleanup: not configurable
            site = _remover(prims, 'running', inst)
            if site is None:
                others = [c for c in pre['apps'] if app_name(c) == inst and c != cname and
                          (pre['running'].get(inst) == c or pre['cleanup'].get(inst) == c or
                           post['cleanup'].get(inst) == c)]
                site = ('_synchronize:cached.pop[container of another generation in cleanup]' if others
                        else '_synchronize:not-configured')
            hits.append(fw.Hit(clause='sync:cached-not-running', call_site=site,
                               detail='cache/%s (%s) configurable but running/%s is %r' % (
                                   inst, cname, inst, post['running'].get(inst))))
        # -- handoff: container whose cache entry is gone has a cleanup link -----------------------
        for cname in sorted(post['apps']):
            inst = app_name(cname)
            if post['cache'].get(inst, (None,))[0] == cname:
                continue
            if cname not in post['cleanup'].values():
                if post['running'].get(inst) == cname:
                    site = '_synchronize:still-running'
                elif (post['cleanup'].get(inst, cname) != cname or post['running'].get(inst, cname) != cname or
                      any(p.get('src') == ('running', inst) and p.get('target') != cname for p in prims)):
                    # the instance-named link the code looked at belongs(ed) to another container
                    site = '_synchronize:ignored[link of another container]'
                else:
                    site = '_synchronize:no-cleanup-link'
                hits.append(fw.Hit(clause='handoff', call_site=site,
                                   detail='%s has no cache entry and no cleanup link' % cname))
    return hits


# --------------------------------------------------------------------------------------
# real-code runner
# --------------------------------------------------------------------------------------

class _Crash(BaseException):
    """The manager process is killed (SIGKILL / power cut): nothing in the code under test catches it."""


class _StopRun(BaseException):
    """Ends the endless loop of the real `AppCfgMgr.run` when the manager would block with nothing to do."""


class _Restarted(BaseException):
    """Raised by `handler` after a crash was handled: the events the dead manager still held are lost."""


CFG_FINE = 4        # inside one configure.configure call: mutations 1..CFG_FINE are crash points ...
CFG_STRIDE = 8      # ... and every CFG_STRIDE-th later one


class _World:
    """The real AppCfgMgr on a temporary root, with the harness-side inotify queue."""

    def __init__(self, root, run):
        from treadmill import appcfg
        self.root = root
        self.run = run
        self.appcfg = appcfg
        self.orig_unique_name = appcfg.eventfile_unique_name
        self.orig_app_name = appcfg.app_name
        self.gens = {}          # container name -> generation number
        self.queue = []         # (kind, name)
        self.prims = []
        self.sync_order = []
        self.sync_corder = []
        self.depth = 0
        self.mgr = None
        self.env = None
        self.first_hit = False
        self.broken = set()         # instances whose (unchanged) cache file `configure` now fails on
        self.crash_k = None         # armed crash: kill before the k-th mutation of the next mutating activity
        self.crash_on = False       # a manager activity is running with the crash armed
        self.crash_count = 0
        self.crash_log = []         # mutations the (possibly dying) handler completed: (prim, path, path2)
        self.crash_site = None
        self.last_crash_site = None
        self.dead = False
        self.in_cfg = 0
        self.cfg_mut = 0
        self.in_rmtree = 0
        self.ever_inst = set()      # instance names the cache ever held
        self.stats = {'sync': 0, 'sync2': 0, 'terminate': 0, 'configure': 0, 'flip': 0, 'hits': 0,
                      'handlers': 0}

    # ---- stubs / wrappers --------------------------------------------------------------------------
    def fake_configure(self, tm_env, event, runtime, runtime_param=None):
        from treadmill import exc
        try:
            with io.open(event) as f:
                content = f.read()
        except IOError:
            return None
        if os.path.basename(event) in self.broken:
            raise exc.ContainerSetupError('feature no longer available on this node')
        if 'ok: false' in content:
            if 'setup' in content:
                raise exc.ContainerSetupError('bad manifest')
            raise ValueError('bad manifest')
        # a loadable manifest: the REAL `appcfg.configure.configure` (container directory, services, copy of the
        # event as data/manifest.yml ...); only the runtime plugin lookup and the executable lookup are stubbed
        self.stats['configure'] += 1
        self.in_cfg += 1
        self.cfg_mut = 0
        try:
            return self.real_configure(tm_env, event, runtime, runtime_param)
        finally:
            self.in_cfg -= 1

    # ---- crash points ------------------------------------------------------------------------------
    def _crash_site(self, prim):
        """<innermost appcfgmgr function>:<treadmill helper>:<os primitive> of the mutation about to happen"""
        mgrfn = None
        helper = None
        f = sys._getframe(2)
        while f is not None:
            fn = f.f_code.co_filename
            name = f.f_code.co_name
            if fn.endswith('appcfgmgr.py') and name != '_first_sync':
                mgrfn = name
                break
            if helper is None and ((fn.endswith('fs/__init__.py') and name in (
                    'symlink_safe', 'write_safe', 'rm_safe', 'mkdir_safe')) or
                                   (fn.endswith('utils.py') and name == 'touch')):
                helper = name
            f = f.f_back
        if self.in_cfg:
            return '%s:configure()' % (mgrfn or 'env')
        return '%s:%s%s' % (mgrfn or 'env', (helper + ':') if helper else '', prim)

    def mut(self, prim, path):
        """Called before every mutating os-level call; raises _Crash at the armed point and for everything a
        dead process 'does' afterwards (finally blocks and context managers a real kill would not run)."""
        if not self.crash_on:
            return False
        if self.dead:
            raise _Crash()
        if self.in_rmtree and prim != 'rmtree':
            return False
        try:
            path = os.fspath(path)
        except TypeError:
            return False
        if isinstance(path, bytes):
            path = path.decode()
        if not path.startswith(self.root + os.sep):
            return False
        if self.in_cfg:
            self.cfg_mut += 1
            if self.cfg_mut > CFG_FINE and self.cfg_mut % CFG_STRIDE:
                return True
        self.crash_count += 1
        if self.crash_k is not None and self.crash_count == self.crash_k:
            self.dead = True
            self.crash_site = self._crash_site(prim)
            raise _Crash()
        return True

    def os_patches(self):
        """mock patchers for the mutating calls of os / shutil / open"""
        import builtins
        world = self

        def one(prim, orig, idx=0):
            def f(*a, **kw):
                logged = world.mut(prim, a[idx]) if len(a) > idx else False
                r = orig(*a, **kw)
                if logged:
                    world.crash_log.append((prim, os.fspath(a[idx]), os.fspath(a[0]) if idx else None))
                return r
            return f

        def rmtree(orig):
            def f(path, *a, **kw):
                logged = world.mut('rmtree', path)
                world.in_rmtree += 1
                try:
                    r = orig(path, *a, **kw)
                finally:
                    world.in_rmtree -= 1
                if logged:
                    world.crash_log.append(('rmtree', os.fspath(path), None))
                return r
            return f

        def os_open(orig):
            def f(path, flags, *a, **kw):
                logged = False
                if flags & (os.O_CREAT | os.O_WRONLY | os.O_RDWR | os.O_TRUNC | os.O_APPEND):
                    logged = world.mut('open', path)
                r = orig(path, flags, *a, **kw)
                if logged:
                    world.crash_log.append(('open', os.fspath(path), None))
                return r
            return f

        def py_open(orig):
            def f(file, mode='r', *a, **kw):
                logged = False
                if isinstance(file, (str, bytes, os.PathLike)) and isinstance(mode, str) and set(mode) & set('wax+'):
                    logged = world.mut('open', file)
                r = orig(file, mode, *a, **kw)
                if logged:
                    world.crash_log.append(('open', os.fspath(file), None))
                return r
            return f
        return [
            mock.patch('os.symlink', one('symlink', os.symlink, 1)),
            mock.patch('os.rename', one('rename', os.rename, 1)),
            mock.patch('os.replace', one('rename', os.replace, 1)),
            mock.patch('os.link', one('link', os.link, 1)),
            mock.patch('os.unlink', one('unlink', os.unlink)),
            mock.patch('os.remove', one('unlink', os.remove)),
            mock.patch('os.rmdir', one('rmdir', os.rmdir)),
            mock.patch('os.mkdir', one('mkdir', os.mkdir)),
            mock.patch('os.mkfifo', one('mkfifo', os.mkfifo)),
            mock.patch('shutil.rmtree', rmtree(shutil.rmtree)),
            mock.patch('os.open', os_open(os.open)),
            mock.patch('io.open', py_open(io.open)),
            mock.patch('builtins.open', py_open(builtins.open)),
        ]

    def _site(self):
        names = []
        sync_frame = None
        f = sys._getframe(2)
        while f is not None:
            if f.f_code.co_filename.endswith('appcfgmgr.py'):
                names.append(f.f_code.co_name)
                if f.f_code.co_name == '_synchronize':
                    sync_frame = f
            f = f.f_back
        names = [n for n in names if n != '_first_sync']
        if not names:
            return 'env', None
        if names[0] in ('_terminate', '_configure') and len(names) > 1:
            return '%s>%s' % (names[1], names[0]), sync_frame
        return names[0], sync_frame

    def _rel(self, path):
        d, n = os.path.split(path)
        return (os.path.basename(d), n)

    def wrap_replace(self, orig):
        def replace(path_from, path_to):
            if self.depth:
                return orig(path_from, path_to)
            site, sf = self._site()
            try:
                target = os.path.basename(os.readlink(path_from))
            except OSError:
                target = None
            disc = ''
            if sf is not None and site.endswith('_terminate'):
                loc = sf.f_locals
                if target != loc.get('container'):
                    disc = '[link of another container]'
                elif loc.get('appname') not in loc.get('cached', {}):
                    disc = '[not cached]'
                else:
                    disc = '[cached generation differs]'
            orig(path_from, path_to)
            src, dst = self._rel(path_from), self._rel(path_to)
            if site.endswith('_terminate'):
                self.stats['terminate'] += 1
            self.prims.append({'prim': 'replace', 'src': src, 'dst': dst, 'target': target,
                               'site': '%s:replace(%s->%s)%s' % (site, src[0], dst[0], disc)})
        return replace

    def wrap_symlink_safe(self, orig):
        def symlink_safe(link, target):
            site, _sf = self._site()
            self.depth += 1
            try:
                orig(link, target)
            finally:
                self.depth -= 1
            dst = self._rel(link)
            tname = os.path.basename(target)
            kind = dst[0]
            if kind == 'cleanup':
                kind = _link_kind('cleanup', dst[1], tname, self.orig_app_name)
            self.prims.append({'prim': 'symlink_safe', 'dst': dst, 'target': tname,
                               'site': '%s:symlink_safe(%s)' % (site, kind)})
        return symlink_safe

    def rec_app_name(self, uniquename):
        self.sync_order.append(uniquename)
        return self.orig_app_name(uniquename)

    def rec_unique_name(self, eventfile):
        self.sync_corder.append(os.path.basename(eventfile))
        return self.orig_unique_name(eventfile)

    # ---- state -----------------------------------------------------------------------------------
    def new_manager(self):
        from treadmill import appcfgmgr
        self.mgr = appcfgmgr.AppCfgMgr(self.root, 'linux')
        self.env = self.mgr.tm_env
        for d in (self.env.cache_dir, self.env.apps_dir, self.env.running_dir, self.env.cleanup_dir):
            os.makedirs(d, exist_ok=True)
        # the manager's DirWatcher: the real queueing / batching code (dirwatch_base.DirWatcher.process_events)
        # over the harness' inotify queue; its callbacks are the manager's handlers, as `AppCfgMgr.run` sets them
        from treadmill.dirwatch import dirwatch_base
        world = self

        from treadmill.dirwatch import linux_dirwatch

        from treadmill.syscall import inotify as tm_inotify
        import struct

        def _record(kind, name):
            """One `struct inotify_event` as the kernel queues it for the watched cache directory: eventmgr
            renames a temp file over the entry (IN_MOVED_TO), rewrites .ready in place (IN_MODIFY), unlinks
            (IN_DELETE); the queue overflow marker has wd -1 and no name."""
            if kind == 'overflow':
                return struct.pack('iIII', -1, tm_inotify.IN_Q_OVERFLOW, 0, 0)
            mask = {'created': tm_inotify.IN_MOVED_TO, 'modified': tm_inotify.IN_MODIFY,
                    'deleted': tm_inotify.IN_DELETE}[kind]
            raw = name.encode() + b'\x00'
            raw += b'\x00' * (-len(raw) % 16)
            return struct.pack('iIII', 1, mask, 0, len(raw)) + raw

        class _FakeInotify(tm_inotify.Inotify):
            """The real `Inotify.read_events` (buffer parsing, watch-descriptor lookup) over a pipe the harness
            fills with the records the kernel would have queued."""

            def __init__(self):           # pylint: disable=super-init-not-called
                rd, wr = os.pipe()
                self._inotify_fd = rd
                self._paths = {1: world.env.cache_dir}
                world.ino_fds = (rd, wr)
                world.all_ino_fds = getattr(world, 'all_ino_fds', ()) + (rd, wr)

            def add_watch(self, _path, event_mask=0):     # pylint: disable=arguments-differ
                return 1

            def remove_watch(self, _wd):
                return None

            def read_events(self, event_buffer_size=tm_inotify.DEFAULT_EVENT_BUFFER_SIZE):
                buf = b''.join(_record(k, n) for k, n in world.queue)
                if any(e[0] == 'overflow' for e in world.queue):
                    world.overflow_read = True
                world.expected.extend(e for e in world.queue if e[0] != 'overflow')
                world.queue = []
                if not buf:
                    return []
                os.write(world.ino_fds[1], buf)
                return tm_inotify.Inotify.read_events(self, max(event_buffer_size, len(buf)))

        class _QueueWatcher(linux_dirwatch.LinuxDirWatcher):
            """The real LinuxDirWatcher (its `_read_events` translation of inotify events and the base class'
            `process_events` batching) over a fake inotify descriptor fed from the harness' queue."""
            __slots__ = ()

            def __init__(self, watch_dir):           # pylint: disable=super-init-not-called
                self.inotify = _FakeInotify()
                self.poll = None
                dirwatch_base.DirWatcher.__init__(self, watch_dir)

            def _wait_for_events(self, timeout):
                return bool(world.queue)
        self.QueueWatcher = _QueueWatcher
        self.more_pending = dirwatch_base.DirWatcherEvent.MORE_PENDING
        self.expected = []          # events handed to the watcher, in inotify (FIFO) order, not yet delivered
        self.watcher = _QueueWatcher(self.env.cache_dir)
        for kind in ('created', 'modified', 'deleted'):
            setattr(self.watcher, 'on_' + kind,
                    (lambda k: lambda path: world.delivered(k, os.path.basename(path)))(kind))

    def delivered(self, kind, name):
        """A DirWatcher callback: events reach the handlers in the order inotify queued them."""
        if self.expected and self.expected[0] != (kind, name):
            self.run.hits.append(fw.Hit(clause='event-order', call_site='DirWatcher.process_events',
                                        detail='%s %s delivered while %s %s was queued before it' % (
                                            (kind, name) + tuple(self.expected[0]))))
            if (kind, name) in self.expected:
                self.expected.remove((kind, name))
        elif self.expected:
            self.expected.pop(0)
        self.handler(kind, name)

    def deliver(self, n):
        """What `AppCfgMgr.run` does while events are pending: rounds of `process_events(max_events=5)`."""
        left = n
        while left > 0 and (self.queue or self.watcher.event_list):
            self.overflow_read = False
            try:
                res = self.watcher.process_events(max_events=min(5, left))
            except _Restarted:
                return
            except KeyError:
                if not self.overflow_read:
                    raise
                # the overflow marker (wd -1) is no watch of ours: the manager dies on it, the supervisor
                # restarts it and the new one synchronises from scratch - the lost events no longer matter
                self.stats['overflow-died'] = self.stats.get('overflow-died', 0) + 1
                self.expected = []
                self.restart()
                return
            if self.overflow_read:
                self.run.hits.append(fw.Hit(
                    clause='queue-overflow-swallowed', call_site='Inotify.read_events',
                    detail='the inotify queue overflowed (events of the cache directory were lost) and the '
                           'manager carried on: nothing will make it look at the cache again'))
            done = sum(1 for r in res if r[0] != self.more_pending)
            if any(r[0] == self.more_pending for r in res):
                self.stats['more-pending'] = self.stats.get('more-pending', 0) + 1
            if done == 0:
                break
            left -= done

    def snap(self):
        env = self.env
        s = {'cache': {}, 'apps': {}, 'running': {}, 'cleanup': {}, 'active': self.mgr._is_active is True}
        for n in sorted(os.listdir(env.cache_dir)):
            if n.startswith('.'):
                continue
            p = os.path.join(env.cache_dir, n)
            with io.open(p) as f:
                ok = 'ok: false' not in f.read() and n not in self.broken
            s['cache'][n] = (self.orig_unique_name(p), ok)
        for n in sorted(os.listdir(env.apps_dir)):
            s['apps'][n] = tuple(m for m in MARKERS if os.path.exists(os.path.join(env.apps_dir, n, 'data', m)))
        for key, d in (('running', env.running_dir), ('cleanup', env.cleanup_dir)):
            for n in sorted(os.listdir(d)):
                if n.startswith('.'):
                    # hidden entries (the temporary links of fs.symlink_safe) are invisible to every consumer:
                    # s6-svscan, the globs of the manager, run.sh, cleanup
                    continue
                p = os.path.join(d, n)
                s[key][n] = os.path.basename(os.readlink(p)) if os.path.islink(p) else '?'
        return s

    def legal_link(self, dirname, n):
        """an instance name the cache has known, or (cleanup/ only) a container name apps/ has known"""
        return n in self.ever_inst or (dirname == 'cleanup' and n in self.gens)

    def monitor_stray(self, s):
        hits = []
        for key in ('running', 'cleanup'):
            for n, t in sorted(s[key].items()):
                if not self.legal_link(key, n):
                    hits.append(fw.Hit(clause='stray-link', call_site=self.last_crash_site or 'env',
                                       detail='%s/%s -> %s is neither an instance of the cache nor a container of '
                                              'apps/' % (key, n, t)))
        return hits

    def cid(self, cname):
        inst = self.orig_app_name(cname)
        i = INST.index(inst) if inst in INST else 99
        return '%d:%d' % (i, self.gens.get(cname, 999))

    def cid_key(self, cname):
        inst = self.orig_app_name(cname)
        return (INST.index(inst) if inst in INST else 99, self.gens.get(cname, 999))

    def obs(self, s):
        cache = ','.join('%d:%d:%d' % (INST.index(n), self.gens.get(c, 999), 1 if ok else 0)
                         for n, (c, ok) in sorted(s['cache'].items(), key=lambda kv: INST.index(kv[0]))) or '-'
        apps = ','.join('%s:%d' % (self.cid(c), sum(1 << MARKERS.index(m) for m in ms))
                        for c, ms in sorted(s['apps'].items(), key=lambda kv: self.cid_key(kv[0]))) or '-'
        stray = sorted('%s/S>%s' % (k, self.cid(t)) for k in ('running', 'cleanup')
                       for n, t in s[k].items() if not self.legal_link(k, n))
        if stray:
            s = dict(s, running={n: t for n, t in s['running'].items() if self.legal_link('running', n)},
                     cleanup={n: t for n, t in s['cleanup'].items() if self.legal_link('cleanup', n)})
        running = ','.join('%d>%s' % (INST.index(n), self.cid(t))
                           for n, t in sorted(s['running'].items(), key=lambda kv: INST.index(kv[0]))) or '-'

        def lk(n):
            if n in INST:
                return (0, INST.index(n), 0)
            i, g = self.cid_key(n)
            return (1, i, g)

        def ls(n):
            return 'I:%d' % INST.index(n) if n in INST else 'C:%s' % self.cid(n)
        cleanup = ','.join('%s>%s' % (ls(n), self.cid(t))
                           for n, t in sorted(s['cleanup'].items(), key=lambda kv: lk(kv[0]))) or '-'
        return 'active=%d cache=%s apps=%s running=%s cleanup=%s%s' % (
            1 if s['active'] else 0, cache, apps, running, cleanup,
            (' stray=' + ','.join(stray)) if stray else '')

    def emit(self, line, post, hits):
        self.run.op(line, None if getattr(self, 'uncompared', False) else self.obs(post))
        hits = list(hits) + self.monitor_stray(post)
        if hits and not self.first_hit:
            # later states are consequences of the first violation: report the first step only
            self.first_hit = True
            self.run.hits.extend(hits)
            self.stats['hits'] += len(hits)

    # ---- operations --------------------------------------------------------------------------------
    def fs_create(self, i, ok):
        name = INST[i]
        path = os.path.join(self.env.cache_dir, name)
        if ok:
            content = MANIFEST + '# name: %s\n# ok: true\n' % name
            if i == 2:
                # this instance's manifest carries a `uniqueid` of its own (an unusual but legal key): the container is
                # still named after the cache file's event, as `_synchronize` expects
                content += 'uniqueid: 0000abcdefghi\n'
        else:
            content = 'name: %s\nok: %s\n' % (name, 'false # setup' if i % 2 else 'false')
        for _attempt in range(200):
            tmp = os.path.join(self.env.cache_dir, '.%s-tmp' % name)
            with io.open(tmp, 'w') as f:
                f.write(content)
            os.replace(tmp, path)
            cname = self.orig_unique_name(path)
            if cname not in self.gens:
                break
            time.sleep(0.002)       # same inode and ctime tick as an earlier generation: write again
        else:
            raise fw.InfraError('file system does not give fresh unique ids')
        g = len(self.gens)
        self.gens[cname] = g
        self.ever_inst.add(name)
        self.broken.discard(name)       # a new file: a new manifest
        self.queue.append(('created', name))
        self.prims = []
        post = self.snap()
        hits = monitor_single_ref(post, [], self.orig_app_name, 'env:fs_create')
        if self.orig_app_name(cname) != name:
            # the model abstracts container names to (instance, generation): the real naming
            # functions must round-trip
            hits.append(fw.Hit(clause='naming-roundtrip', call_site='appcfg.app_name',
                               detail='%r -> %r -> %r' % (name, cname, self.orig_app_name(cname))))
        self.emit('fscreate %d %d %d' % (i, g, 1 if ok else 0), post, hits)

    def cfg_break(self, i):
        name = INST[i]
        if os.path.exists(os.path.join(self.env.cache_dir, name)):
            self.broken.add(name)
        self.emit('cfgbreak %d' % i, self.snap(), [])

    def fs_delete(self, i):
        name = INST[i]
        path = os.path.join(self.env.cache_dir, name)
        self.broken.discard(name)
        if os.path.exists(path):
            os.unlink(path)
            self.queue.append(('deleted', name))
        post = self.snap()
        self.emit('fsdelete %d' % i, post, [])

    def ready(self, on):
        path = os.path.join(self.env.cache_dir, '.ready')
        if on:
            existed = os.path.exists(path)
            with io.open(path, 'w'):
                pass
            self.queue.append(('modified' if existed else 'created', '.ready'))
        elif os.path.exists(path):
            os.unlink(path)
            self.queue.append(('deleted', '.ready'))

    def handler(self, kind, name):
        """One DirWatcher callback on the real manager + monitor + driver line."""
        mgr = self.mgr
        path = os.path.join(self.env.cache_dir, name)
        pre = self.snap()
        self.prims = []
        self.sync_order = []
        self.sync_corder = []
        was_active = mgr._is_active is True
        before_cache = set(pre['cache'])
        self.crash_count = 0
        self.crash_log = []
        self.crash_on = self.crash_k is not None
        crashed = False
        try:
            getattr(mgr, '_on_' + kind)(path)
        except _Crash:
            crashed = True
        finally:
            self.crash_on = False
            self.dead = False
        if crashed:
            self.crashed(kind, name, pre)
            raise _Restarted()
        if self.crash_k is not None and self.crash_count:
            self.crash_k = None         # the activity had fewer than k mutations: it completed
            self.stats['crash-missed'] = self.stats.get('crash-missed', 0) + 1
        post = self.snap()
        self.stats['handlers'] += 1
        # files the manager itself removed from the cache generate inotify events
        for n in sorted(before_cache - set(post['cache'])):
            self.queue.append(('deleted', n))
        synced = (not was_active) and post['active'] and name == '.ready' and kind in ('created', 'modified')
        if synced:
            self.stats['sync'] += 1
            if len(pre['apps']) >= 2:
                self.stats['sync2'] += 1
            if self.stats['sync'] > 1:
                self.stats['flip'] += 1
        hits = monitor_single_ref(post, self.prims, self.orig_app_name, kind + ':untraced')
        hits += monitor_handler(kind, name, pre, post, self.prims, synced, self.orig_app_name)
        if name == '.ready':
            dn = 'ready'
        elif name in INST:
            dn = str(INST.index(name))
        else:
            dn = 'other'
        if kind == 'deleted':
            line = 'deleted %s' % dn
        else:
            order = ','.join(self.cid(c) for c in self.sync_order) or '-'
            corder = ','.join(str(INST.index(n)) for n in self.sync_corder if n in INST) or '-'
            line = '%s %s %s %s' % (kind, dn, order, corder)
        self.emit(line, post, hits)

    def flag(self, i, kind):
        name = INST[i]
        ddir = os.path.join(self.env.running_dir, name, 'data')
        if os.path.isdir(ddir):
            with io.open(os.path.join(ddir, kind), 'w') as f:
                f.write('x')
        post = self.snap()
        self.emit('flag %d %s' % (i, kind), post, [])

    def finish(self, i, ab):
        from treadmill import monitor
        name = INST[i]
        link = os.path.join(self.env.running_dir, name)
        self.prims = []
        if ab and not os.path.isdir(os.path.join(link, 'data')):
            ab = False          # pid1 cannot abort in a container that does not exist
        acked = monitor.MonitorContainerCleanup(self.env, {}).execute(
            {'id': name, 'signal': 6 if ab else 0, 'return_code': 0, 'path': link, 'timestamp': 0})
        post = self.snap()
        if not acked:
            # `Monitor.run` deletes a tombstone only when its action returns true: an unacknowledged tombstone is
            # replayed when the monitor restarts, against whatever container then runs under the instance's name
            self.run.hits.append(fw.Hit(clause='tombstone-not-acknowledged', call_site='MonitorContainerCleanup.execute',
                                        detail='execute() returned %r for %s (running link %s)' % (
                                            acked, name, 'present' if os.path.lexists(link) else 'gone')))
        self.emit('finish %d %d' % (i, 1 if ab else 0), post,
                  monitor_single_ref(post, self.prims, self.orig_app_name, 'env:finish'))

    def cleanup_link(self, lname):
        from treadmill import cleanup
        self.prims = []
        cleanup.Cleanup(self.env).invoke('linux', lname)
        post = self.snap()
        if lname in INST:
            ln = 'I:%d' % INST.index(lname)
        else:
            ln = 'C:%s' % self.cid(lname)
        self.emit('cleanup %s' % ln, post, [])

    def overflow(self):
        """The manager fell behind and the kernel's event queue overflowed: what was queued after the point
        of overflow is lost; the kernel leaves one IN_Q_OVERFLOW marker."""
        keep = len(self.queue) // 2
        self.queue = self.queue[:keep] + [('overflow', '')]
        self.stats['overflow'] = self.stats.get('overflow', 0) + 1

    def prim_lines(self):
        """The mutations the dead handler completed, as primitive state changes of the model's tree (everything
        below a container directory except the marker files, and hidden entries, are invisible to it)."""
        lines = []
        for prim, path, src in self.crash_log:
            parts = os.path.relpath(path, self.root).split(os.sep)
            sparts = os.path.relpath(src, self.root).split(os.sep) if src else None
            if any(x.startswith('.') for x in parts):
                continue
            if prim == 'mkdir' and len(parts) == 2 and parts[0] == 'apps' and parts[1] in self.gens:
                lines.append('pmkapp %s' % self.cid(parts[1]))
            elif prim == 'rmtree' and len(parts) == 2 and parts[0] == 'apps' and parts[1] in self.gens:
                lines.append('prmapp %s' % self.cid(parts[1]))
            elif prim == 'open' and len(parts) == 4 and parts[0] == 'apps' and parts[2] == 'data' and \
                    parts[3] in MARKERS and parts[1] in self.gens:
                lines.append('pmark %s %s' % (self.cid(parts[1]), parts[3]))
            elif prim == 'unlink' and len(parts) == 2 and parts[0] == 'cache' and parts[1] in INST:
                lines.append('pcacherm %d' % INST.index(parts[1]))
            elif prim == 'rename' and len(parts) == 2 and parts[0] in ('running', 'cleanup'):
                try:
                    target = os.path.basename(os.readlink(path))
                except OSError:
                    target = None
                if target not in self.gens:
                    lines.append('punknown')
                elif sparts and sparts[0] == 'running' and not sparts[1].startswith('.') and \
                        parts[0] == 'cleanup' and parts[1] == target and sparts[1] in INST:
                    lines.append('ptermmv %d' % INST.index(sparts[1]))
                elif parts[0] == 'running' and parts[1] in INST:
                    lines.append('prunlink %d %s' % (INST.index(parts[1]), self.cid(target)))
                elif parts[0] == 'cleanup' and parts[1] in INST:
                    lines.append('pcleanlink %d %s' % (INST.index(parts[1]), self.cid(target)))
                else:
                    lines.append('punknown')
        return lines

    def crashed(self, kind, name, pre):
        """The manager was killed inside the handler `kind name`: judge the tree it left behind, restart it and
        let the new one synchronise."""
        site = self.crash_site
        self.last_crash_site = site
        self.crash_k = None
        self.expected = []
        self.stats['crash'] = self.stats.get('crash', 0) + 1
        self.run.tags.add('crash@' + site)
        mid = self.snap()
        # the property's state clauses on the half-done handler: at most one link per container, no finished
        # container linked back into running, an unchanged running container untouched (the clauses about the
        # RESULT of a synchronisation / a delete event are judged after the restart's synchronisation)
        hits = monitor_single_ref(mid, self.prims, self.orig_app_name, site)
        hits += monitor_handler('crashed:' + kind, name, pre, mid, self.prims, False, self.orig_app_name)
        plines = self.prim_lines()
        for ln in plines:
            self.run.op(ln, None)
        if 'punknown' in plines:
            # a mutation of the cut handler the harness cannot name for the model (e.g. a link that the same handler
            # created and then moved: its target can no longer be read): from here on the model no longer tracks the
            # tree - the rest of the history is judged by the monitors on the real directories only
            self.uncompared = True
            self.run.tags.add('crash-prefix-unmapped')
        if hits and not self.first_hit:
            self.first_hit = True
            self.run.hits.extend(hits)
            self.stats['hits'] += len(hits)
        # (files the dead manager removed from the cache: their inotify events went to a watch that no longer exists)
        self.restart()

    def restart(self):
        self.queue = []
        self.new_manager()
        post = self.snap()
        self.emit('restart', post, [])

    def cleanup_links(self):
        """what the cleanup service sees: `glob(cleanup/*)` (no hidden entries)"""
        return sorted(n for n in os.listdir(self.env.cleanup_dir) if not n.startswith('.'))

    def startup(self, j, what, i, ok):
        """Manager restart through the REAL `AppCfgMgr.run()`: its start-up sequence runs statement by statement
        (line tracer on run()'s frame); right before its j-th statement the event manager changes the cache
        (`what` = create | delete of instance i). A change made before run() has created its DirWatcher produces
        no event (there is no watch yet), a later one is queued. When run() first blocks in wait_for_events the
        event manager's periodic notification of cache/.ready arrives; run() then processes events in its own
        rounds of process_events(max_events=5) until it would block again, where the harness stops the loop.
        Whatever happened to the cache before the manager first blocked must be reflected then."""
        from treadmill import appcfgmgr
        world = self
        self.queue = []
        self.expected = []
        self.new_manager()
        mgr = self.mgr
        pre = self.snap()
        self.emit('restart', pre, [])
        name = INST[i]
        st = {'n': 0, 'injected': None, 'live': False, 'notified': False, 'cbs': {}}
        run_code = appcfgmgr.AppCfgMgr.run.__code__
        ready = os.path.join(self.env.cache_dir, '.ready')

        def inject(where):
            if st['injected']:
                return
            st['injected'] = '%s:%s' % ('watch-exists' if st['live'] else 'before-watch', where)
            if what == 'create':
                world.fs_create(i, ok)
            else:
                world.fs_delete(i)
            if not st['live']:
                world.queue = []        # nobody watches the directory yet: no event

        Base = self.QueueWatcher

        def cb_prop(kind):
            def getter(_self):
                return lambda path: world.delivered(kind, os.path.basename(path))

            def setter(_self, value):
                st['cbs'][kind] = value
            return property(getter, setter)

        class _RunWatcher(Base):
            """the DirWatcher `run()` creates: the harness' queue underneath, the harness' monitored dispatch on top
            (the callbacks run() registers are checked to be the manager's handlers)"""
            on_created = cb_prop('created')
            on_modified = cb_prop('modified')
            on_deleted = cb_prop('deleted')

            def __init__(self_, watch_dir):         # pylint: disable=no-self-argument
                Base.__init__(self_, watch_dir)
                st['live'] = True
                world.watcher = self_

            def _wait_for_events(self_, timeout):   # pylint: disable=no-self-argument
                inject('first-wait')
                if not st['notified']:
                    st['notified'] = True
                    if os.path.exists(ready):
                        world.ready(True)
                if not world.queue:
                    raise _StopRun()
                return True

        def tracer(frame, event, _arg):
            if frame.f_code is not run_code:
                return None
            if event == 'line':
                st['n'] += 1
                if st['n'] == j:
                    inject('line+%d' % (frame.f_lineno - run_code.co_firstlineno))
            return tracer

        lease = mock.Mock()
        old_trace = sys.gettrace()
        died = False
        try:
            with mock.patch('treadmill.dirwatch.DirWatcher', _RunWatcher), \
                    mock.patch('treadmill.watchdog.Watchdog.create', mock.Mock(return_value=lease)):
                sys.settrace(tracer)
                try:
                    mgr.run()
                finally:
                    sys.settrace(old_trace)
        except _StopRun:
            pass
        except _Restarted:
            died = True
        self.stats['startup'] = self.stats.get('startup', 0) + 1
        self.run.tags.add('startup:change@' + (st['injected'] or 'none').split(':')[0])
        if died or self.mgr is not mgr:
            return
        for kind, attr in (('created', '_on_created'), ('modified', '_on_modified'), ('deleted', '_on_deleted')):
            if st['cbs'].get(kind) != getattr(mgr, attr):
                self.run.hits.append(fw.Hit(clause='startup-wiring', call_site='run',
                                            detail='on_%s is %r' % (kind, st['cbs'].get(kind))))
        post = self.snap()
        if post['active'] and not self.first_hit:
            # the manager went active during start-up: it has synchronised; the result must reflect the cache as it
            # is now (nothing is queued any more), in particular the change made while it started
            mid = dict(pre, cache=post['cache'])
            hits = [h for h in monitor_handler('startup', '.ready', mid, post, [], True, self.orig_app_name)
                    if h['clause'].startswith('sync:') or h['clause'] == 'handoff']
            mine = [h for h in hits if name in h['detail'] or name.replace('#', '-') in h['detail']]
            if mine:
                self.first_hit = True
                self.stats['hits'] += 1
                self.run.hits.append(fw.Hit(
                    clause='startup-lost-event', call_site='run:' + (st['injected'] or 'none').split(':')[0],
                    detail='%s of cache/%s while the manager started (%s) is not reflected after its first round of '
                           'events: %s' % (what, name, st['injected'], mine[0]['detail'])))

    def reboot(self):
        for d in (self.env.running_dir, self.env.cleanup_dir):
            for n in os.listdir(d):
                if not n.startswith('.'):       # run.sh: rm -f running/* cleanup/*
                    os.unlink(os.path.join(d, n))
        self.queue = []
        self.new_manager()
        post = self.snap()
        self.emit('wipe', post, [])


class _FakeRuntime:
    def __init__(self, container_dir):
        self.container_dir = container_dir

    def finish(self):
        shutil.rmtree(self.container_dir)


def run_impl(case, pid):
    from treadmill import fs as tm_fs

    run = fw.ImplRun()
    root = tempfile.mkdtemp(dir='/var/tmp', prefix='tmverif-appcfg-')
    try:
        w = _World(root, run)
        from treadmill.appcfg import configure as tm_configure
        from treadmill import context as tm_context
        tm_context.GLOBAL.cell = 'test'
        tm_context.GLOBAL.zk.url = 'zookeeper://foo@bar:123'
        w.real_configure = tm_configure.configure
        with mock.patch('treadmill.appcfg.configure.configure', w.fake_configure), \
                mock.patch('treadmill.runtime.get_runtime_cls', mock.Mock(return_value=_StubRuntimeCls)), \
                mock.patch('treadmill.subproc.resolve', mock.Mock(side_effect=lambda exe: '/bin/' + exe)), \
                mock.patch('treadmill.supervisor.control_svscan', mock.Mock()), \
                mock.patch('treadmill.appcfg.abort.report_aborted', mock.Mock()), \
                mock.patch('treadmill.runtime.get_runtime',
                           lambda _rt, _env, cdir, _param=None: _FakeRuntime(cdir)), \
                mock.patch('treadmill.fs.replace', w.wrap_replace(tm_fs.replace)), \
                mock.patch('treadmill.fs.symlink_safe', w.wrap_symlink_safe(tm_fs.symlink_safe)), \
                mock.patch('treadmill.appcfg.app_name', w.rec_app_name), \
                mock.patch('treadmill.appcfg.eventfile_unique_name', w.rec_unique_name), \
                contextlib.ExitStack() as stack:
            if any(op[0] == 'crash' for op in case['ops']):
                for patcher in w.os_patches():
                    stack.enter_context(patcher)
            w.new_manager()
            for op in case['ops']:
                k = op[0]
                if k == 'crash':
                    w.crash_k = max(1, int(op[1]))
                elif k == 'fs_create':
                    w.fs_create(int(op[1]) % len(INST), bool(op[2]))
                elif k == 'fs_delete':
                    w.fs_delete(int(op[1]) % len(INST))
                elif k == 'cfg_break':
                    w.cfg_break(int(op[1]) % len(INST))
                elif k == 'overflow':
                    w.overflow()
                elif k == 'ready':
                    w.ready(bool(op[1]))
                elif k == 'deliver':
                    w.deliver(int(op[1]))
                elif k == 'ev':
                    name = op[2]
                    try:
                        if isinstance(name, int):
                            # IN_MODIFY / IN_ATTRIB on a manifest: the only instance event that is
                            # always possible and always ignored
                            w.handler('modified', INST[name % len(INST)])
                        elif op[1] in ('created', 'modified', 'deleted') and name in IGNORED_NAMES:
                            w.handler(op[1], name)
                    except _Restarted:
                        pass
                elif k == 'flag':
                    if op[2] in FLAGS:
                        w.flag(int(op[1]) % len(INST), op[2])
                elif k == 'finish':
                    w.finish(int(op[1]) % len(INST), bool(op[2]))
                elif k == 'cleanup':
                    links = w.cleanup_links()
                    if links:
                        w.cleanup_link(links[int(op[1]) % len(links)])
                elif k == 'cleanup_all':
                    for ln in w.cleanup_links():
                        if op[1] == 'all' or ln not in INST:
                            w.cleanup_link(ln)
                elif k == 'restart':
                    w.restart()
                elif k == 'startup':
                    w.startup(int(op[1]), 'create' if op[2] == 'create' else 'delete', int(op[3]) % len(INST),
                              bool(op[4]))
                elif k == 'reboot':
                    w.reboot()
        s = w.stats
        run.tags.add('mode=%s' % case.get('mode', '?'))
        if s.get('more-pending'):
            run.tags.add('batch-limit-reached')
        if s.get('overflow-died'):
            run.tags.add('queue-overflow:manager-died-and-resynced')
        if s.get('crash'):
            run.tags.add('crashed')
        if s.get('crash-missed'):
            run.tags.add('crash-armed-but-handler-completed')
        if w.broken or s.get('cfg-break'):
            run.tags.add('configure-broken-for-unchanged-file')
        run.tags.add('syncs=%d' % min(s['sync'], 4))
        if s['sync2']:
            run.tags.add('sync-with->=2-containers')
        if s['terminate']:
            run.tags.add('terminate')
        if s['configure']:
            run.tags.add('configure')
        if s['flip']:
            run.tags.add('resync')
        if s['hits']:
            run.tags.add('monitor-hit')
        else:
            run.tags.add('no-monitor-hit')
        for h in run.hits:
            run.tags.add('hit:' + h['clause'])
        run.nontrivial = bool(s['sync2'] and s['terminate'] and s['configure'] and s['flip'])
        return run
    finally:
        shutil.rmtree(root, ignore_errors=True)
        for w_ in ([w] if 'w' in dir() else []):
            for fd in getattr(w_, 'all_ino_fds', ()):
                try:
                    os.close(fd)
                except OSError:
                    pass
