"""Extractor for the `codec` engine (C15) -> lean/TmVerif/Gen/ExtCodec.lean (namespace TmVerif.ExtCodec).

Data only: the base-N alphabet, the constants inside `appcfg.gen_uniqueid` / `_fmt_unique_name`
(read from the AST), the rule-file patterns and regex sources, firewall wildcards, the trace
event-type tables and the LDAP `_schema` tables of Application / CellAllocation / Partition.
Each section is independent (see harness/extract.py).
"""
import ast
import importlib
import os
import string

from fw import REPO_PY


def lstr(s):
    """Lean `List Char` term for a Python str."""
    out = []
    for ch in s:
        if ch == '\\':
            out.append('\\\\')
        elif ch == '"':
            out.append('\\"')
        elif ch == '\n':
            out.append('\\n')
        elif ch == '\t':
            out.append('\\t')
        elif 32 <= ord(ch) < 127:
            out.append(ch)
        else:
            out.append('\\u{%x}' % ord(ch))
    return '"' + ''.join(out) + '".toList'


def lchar(c):
    assert len(c) == 1
    if c == "'":
        return "'\\''"
    if c == '\\':
        return "'\\\\'"
    if 32 <= ord(c) < 127:
        return "'%s'" % c
    return "'\\u{%x}'" % ord(c)


def _func(modpath, name):
    src = open(os.path.join(REPO_PY, modpath)).read()
    for node in ast.parse(src).body:
        if isinstance(node, ast.FunctionDef) and node.name == name:
            return node
    raise KeyError(name)


def _ev(node):
    return eval(compile(ast.Expression(node), '<extract>', 'eval'), {'string': string, 'len': len})  # pylint: disable=eval-used


def _tname(t):
    return t.id if isinstance(t, ast.Name) else None


def sec_basen(emit):
    utils = importlib.import_module('treadmill.utils')
    alpha = utils._DEFAULT_BASE_ALPHABET
    assert isinstance(alpha, str)
    emit('/-- `treadmill.utils._DEFAULT_BASE_ALPHABET`. -/')
    emit('def baseAlphabet : List Char := %s' % lstr(alpha))


def sec_uniqueid(emit):
    fn = _func('treadmill/appcfg/__init__.py', 'gen_uniqueid')
    got = {}
    for st in ast.walk(fn):
        if isinstance(st, ast.Assign) and len(st.targets) == 1:
            t = _tname(st.targets[0])
            if t == 'numerals':
                got['alphabet'] = _ev(st.value)
            elif t == 'event_time':
                # int(event_stat.st_ctime * 10**6)
                call = st.value
                assert isinstance(call, ast.Call) and _tname(call.func) == 'int'
                mul = call.args[0]
                assert isinstance(mul, ast.BinOp) and isinstance(mul.op, ast.Mult)
                assert isinstance(mul.left, ast.Attribute) and mul.left.attr == 'st_ctime'
                got['time_scale'] = _ev(mul.right)
            elif t == 'event_data':
                assert isinstance(st.value, ast.Call) and _tname(st.value.func) == 'int'
                assert st.value.args[0].attr == 'st_ino'
            elif t == 'seed':
                # (event_time << 64) + int(event_data)
                add = st.value
                assert isinstance(add, ast.BinOp) and isinstance(add.op, ast.Add)
                sh = add.left
                assert isinstance(sh, ast.BinOp) and isinstance(sh.op, ast.LShift) and _tname(sh.left) == 'event_time'
                got['time_shift'] = _ev(sh.right)
                assert isinstance(add.right, ast.Call) and _tname(add.right.args[0]) == 'event_data'
            elif t == 'ret':
                call = st.value
                assert call.func.attr == 'to_base_n'
                kw = {k.arg: k.value for k in call.keywords}
                assert _tname(call.args[0]) == 'seed' and _tname(kw['alphabet']) == 'numerals'
                assert ast.dump(kw['base']) == ast.dump(ast.parse('len(numerals)', mode='eval').body)
        elif isinstance(st, ast.AugAssign):
            t = _tname(st.target)
            if t == 'event_data' and isinstance(st.op, ast.BitXor):
                sh = st.value
                assert isinstance(sh, ast.BinOp) and isinstance(sh.op, ast.LShift)
                assert isinstance(sh.left, ast.Call) and _tname(sh.left.args[0]) == 'instance'
                got['inst_shift'] = _ev(sh.right)
            elif t == 'event_data' and isinstance(st.op, ast.BitAnd):
                got['data_mask'] = _ev(st.value)
            elif t == 'seed' and isinstance(st.op, ast.BitAnd):
                got['seed_mask'] = _ev(st.value)
            else:
                raise AssertionError('unexpected augmented assignment in gen_uniqueid')
        elif isinstance(st, ast.Return):
            call = st.value
            assert isinstance(call, ast.Call) and call.func.attr == 'format'
            fmt = call.func.value.value
            probe = fmt.format(identifier='x')
            assert probe.endswith('x') and len(set(probe[:-1])) <= 1
            got['width'] = len(probe)
            got['fill'] = probe[0]
            assert fmt.format(identifier='y' * (len(probe) + 3)) == 'y' * (len(probe) + 3)
    need = {'alphabet', 'time_scale', 'time_shift', 'inst_shift', 'data_mask', 'seed_mask', 'width', 'fill'}
    assert set(got) == need, sorted(need - set(got))
    emit('/-- `numerals` in `appcfg.gen_uniqueid` (base = its length). -/')
    emit('def uidAlphabet : List Char := %s' % lstr(got['alphabet']))
    emit('/-- `int(st_ctime * <this>)`. -/')
    emit('def uidTimeScale : Nat := %d' % got['time_scale'])
    emit('def uidTimeShift : Nat := %d' % got['time_shift'])
    emit('def uidInstShift : Nat := %d' % got['inst_shift'])
    emit('def uidDataMask : Nat := %d' % got['data_mask'])
    emit('/-- `seed &= <this>` (2^77 - 1). -/')
    emit('def uidSeedMask : Nat := %d' % got['seed_mask'])
    emit('/-- `{identifier:>013s}`: right-aligned, this width, this fill. -/')
    emit('def uidWidth : Nat := %d' % got['width'])
    emit('def uidFill : Char := %s' % lchar(got['fill']))

    # _fmt_unique_name: '{app}-{id:>013s}'.format(app=appname.replace('#', '-'), id=app_uniqueid)
    fn = _func('treadmill/appcfg/__init__.py', '_fmt_unique_name')
    ret = [s for s in ast.walk(fn) if isinstance(s, ast.Return)]
    assert len(ret) == 1
    call = ret[0].value
    assert call.func.attr == 'format'
    fmt = call.func.value.value
    kw = {k.arg: k.value for k in call.keywords}
    assert set(kw) == {'app', 'id'} and _tname(kw['id']) == 'app_uniqueid'
    rep = kw['app']
    assert rep.func.attr == 'replace' and _tname(rep.func.value) == 'appname'
    rfrom, rto = rep.args[0].value, rep.args[1].value
    assert len(rfrom) == 1 and len(rto) == 1 and len(rep.args) == 2
    probe = fmt.format(app='A', id='x')
    assert probe.startswith('A') and probe.endswith('x')
    sep = probe[1]
    pad = probe[2:-1]
    assert len(set(pad)) == 1
    assert fmt.format(app='A', id='y' * 40) == 'A' + sep + 'y' * 40
    emit('/-- `_fmt_unique_name`: `appname.replace(nameReplFrom, nameReplTo) + nameSep + id.rjust(nameIdWidth, nameIdFill)`. -/')
    emit('def nameReplFrom : Char := %s' % lchar(rfrom))
    emit('def nameReplTo : Char := %s' % lchar(rto))
    emit('def nameSep : Char := %s' % lchar(sep))
    emit('def nameIdWidth : Nat := %d' % (len(pad) + 1))
    emit('def nameIdFill : Char := %s' % lchar(pad[0]))


def sec_rulefile(emit):
    rf = importlib.import_module('treadmill.rulefile')
    fwm = importlib.import_module('treadmill.firewall')
    emit('/-- regex sources of `rulefile._DNAT_FILE_RE`, `_SNAT_FILE_RE`, `_PASSTHROUGH_FILE_RE`. -/')
    emit('def dnatRe : List Char := %s' % lstr(rf._DNAT_FILE_RE.pattern))
    emit('def snatRe : List Char := %s' % lstr(rf._SNAT_FILE_RE.pattern))
    emit('def passthroughRe : List Char := %s' % lstr(rf._PASSTHROUGH_FILE_RE.pattern))
    emit('/-- `re` flags of the three patterns (32 = re.UNICODE only). -/')
    emit('def ruleReFlags : List Nat := [%d, %d, %d]' % (
        rf._DNAT_FILE_RE.flags, rf._SNAT_FILE_RE.flags, rf._PASSTHROUGH_FILE_RE.flags))
    emit('def dnatPattern : List Char := %s' % lstr(rf._DNAT_FILE_PATTERN))
    emit('def snatPattern : List Char := %s' % lstr(rf._SNAT_FILE_PATTERN))
    emit('def passthroughPattern : List Char := %s' % lstr(rf._PASSTHROUGH_FILE_PATTERN))
    emit('/-- `rulefile._ANY`. -/')
    emit('def ruleAny : List Char := %s' % lstr(rf._ANY))
    emit('/-- `firewall.ANY_IP`, `firewall.ANY_PORT`. -/')
    emit('def fwAnyIp : List Char := %s' % lstr(fwm.ANY_IP))
    assert isinstance(fwm.ANY_PORT, int) and fwm.ANY_PORT >= 0
    emit('def fwAnyPort : Nat := %d' % fwm.ANY_PORT)
    # the chains under which the runtime files rules (callers of create_rule / unlink_rule)
    ipt = importlib.import_module('treadmill.iptables')
    chains = [ipt.PREROUTING_PASSTHROUGH, ipt.PREROUTING_DNAT, ipt.POSTROUTING_SNAT, ipt.VRING_DNAT, ipt.VRING_SNAT]
    emit('/-- `iptables.PREROUTING_PASSTHROUGH, PREROUTING_DNAT, POSTROUTING_SNAT, VRING_DNAT, VRING_SNAT`. -/')
    emit('def ruleChains : List (List Char) := [%s]' % ', '.join(lstr(c) for c in chains))


def _event_table(modname, enumname):
    mod = importlib.import_module(modname)
    return [(m.name, m.value.__name__, tuple(m.value.__slots__)) for m in getattr(mod, enumname)]


def sec_events(emit):
    for lean, modname, enumname in (('appEventTypes', 'treadmill.trace.app.events', 'AppTraceEventTypes'),
                                    ('serverEventTypes', 'treadmill.trace.server.events', 'ServerTraceEventTypes')):
        rows = _event_table(modname, enumname)
        emit('/-- `%s.%s`: (type name, class name, class __slots__). -/' % (modname, enumname))
        emit('def %s : List (List Char × List Char × List (List Char)) := [' % lean)
        for i, (n, c, sl) in enumerate(rows):
            emit('  (%s, %s, [%s])%s' % (lstr(n), lstr(c), ', '.join(lstr(s) for s in sl),
                                         ',' if i + 1 < len(rows) else ''))
        emit(']')


def _ftype(t):
    if t is str:
        return '.str'
    if t is int:
        return '.int'
    if t is bool:
        return '.bool'
    if t is dict:
        return '.dict'
    if isinstance(t, list) and len(t) == 1 and t[0] is str:
        return '.listStr'
    if isinstance(t, list) and len(t) == 1 and t[0] is int:
        return '.listInt'
    raise ValueError('unknown schema field type %r' % (t,))


def _schema(emit, name, doc, rows):
    emit('/-- %s -/' % doc)
    emit('def %s : List (List Char × List Char × FT) := [' % name)
    for i, (lf, of, ft) in enumerate(rows):
        emit('  (%s, %s, %s)%s' % (lstr(lf), lstr(of), _ftype(ft), ',' if i + 1 < len(rows) else ''))
    emit(']')


def sec_ldap(emit):
    ld = importlib.import_module('treadmill.admin._ldap')
    emit('/-- schema field types: `str`, `int`, `bool`, `dict`, `[str]`, `[int]`. -/')
    emit('inductive FT | str | int | bool | dict | listStr | listInt')
    emit('  deriving DecidableEq, Repr')
    A, C, P = ld.Application, ld.CellAllocation, ld.Partition
    _schema(emit, 'appSchema', '`Application._schema`', A._schema)
    _schema(emit, 'appSvcSchema', '`Application._svc_schema`', A._svc_schema)
    _schema(emit, 'appSvcRestartSchema', '`Application._svc_restart_schema`', A._svc_restart_schema)
    _schema(emit, 'appEndpointSchema', '`Application._endpoint_schema`', A._endpoint_schema)
    _schema(emit, 'appEnvironSchema', '`Application._environ_schema`', A._environ_schema)
    _schema(emit, 'appAffinitySchema', '`Application._affinity_schema`', A._affinity_schema)
    _schema(emit, 'appVringSchema', '`Application._vring_schema`', A._vring_schema)
    _schema(emit, 'appVringRuleSchema', '`Application._vring_rule_schema`', A._vring_rule_schema)
    dr = A._default_svc_restart
    assert set(dr) == {'limit', 'interval'}
    emit('/-- `Application._default_svc_restart` (limit, interval). -/')
    emit('def appDefaultRestart : Int × Int := (%d, %d)' % (dr['limit'], dr['interval']))
    _schema(emit, 'cellAllocSchema', '`CellAllocation._schema`', C._schema)
    _schema(emit, 'cellAllocAssignSchema', '`CellAllocation._assign_schema`', C._assign_schema)
    _schema(emit, 'partitionSchema', '`Partition._schema`', P._schema)
    _schema(emit, 'partitionLimitSchema', '`Partition._limit_schema`', P._limit_schema)
    emit('/-- `_ldap.DEFAULT_PARTITION`. -/')
    emit('def defaultPartition : List Char := %s' % lstr(ld.DEFAULT_PARTITION))


SECTIONS = [sec_basen, sec_uniqueid, sec_rulefile, sec_events, sec_ldap]
