"""Tiny in-memory kazoo stand-in for the `cache` engine (C12).

`EventMgr._cache` only calls `zkclient.get(path, watch=None)` (through
`zkutils.get_with_metadata`) and reads `.ctime` of the returned stat; everything else here
exists so the harness can build ZooKeeper states (node present/absent, data, ctime, mtime).
"""
import collections

import kazoo.exceptions

ZnodeStat = collections.namedtuple(
    'ZnodeStat', 'czxid mzxid ctime mtime version cversion aversion ephemeralOwner '
                 'dataLength numChildren pzxid')


class FakeZk:
    """path -> (bytes, ZnodeStat); ctime/mtime are milliseconds as in kazoo."""

    def __init__(self):
        self.nodes = {}
        self.zxid = 0
        self.gets = []

    def put(self, path, data, ctime_ms, mtime_ms=None):
        """Create or overwrite a node; an overwrite keeps the node's ctime unless given."""
        self.zxid += 1
        old = self.nodes.get(path)
        if old is not None and ctime_ms is None:
            ctime_ms = old[1].ctime
        stat = ZnodeStat(
            czxid=old[1].czxid if old else self.zxid, mzxid=self.zxid, ctime=ctime_ms,
            mtime=mtime_ms if mtime_ms is not None else ctime_ms,
            version=(old[1].version + 1) if old else 0, cversion=0, aversion=0,
            ephemeralOwner=0, dataLength=len(data or b''), numChildren=0, pzxid=self.zxid)
        self.nodes[path] = (data, stat)

    def remove(self, path):
        self.nodes.pop(path, None)

    # ---- kazoo API used by the code under test -------------------------------------------
    def get(self, path, watch=None):
        self.gets.append(path)
        if path not in self.nodes:
            raise kazoo.exceptions.NoNodeError(path)
        return self.nodes[path]

    def exists(self, path, watch=None):
        return self.nodes[path][1] if path in self.nodes else None

    def get_children(self, path, watch=None):
        pre = path.rstrip('/') + '/'
        return sorted({k[len(pre):].split('/')[0] for k in self.nodes if k.startswith(pre)})
