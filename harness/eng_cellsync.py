"""Engine `cellsync` (extra engine of C19): the real `treadmill.cellsync` (`_sync_collection`, `sync_partitions`,
`sync_allocations`, `sync_servers`, `sync_traits`; through them the real `zkutils.put` / `ensure_deleted` /
`ensure_exists`, `utils.reboot_schedule`, `masterapi.update_allocations` / `create_event`)  vs  Lean
`TmVerif.CellSync`.

What the reservation API accepted lives in LDAP; the scheduler reads `/partitions/<name>` and `/allocations` from
ZooKeeper.  cellsync is the code in between.  `context.GLOBAL` is patched to a fake admin (partition / cell-allocation /
server lists of the case) and an in-memory kazoo stand-in (`fakezk_cellsync.FakeZk`).

Case = {'cell': c, 'ops': [...]}, ops:
  ['zk', 'set', dir, name, content]   ZooKeeper-side noise: create / overwrite a child of dir ('coll' | 'parts')
  ['zk', 'sub', dir, name, child]     ... a node below a child (only recursion of ensure_deleted sees it)
  ['zk', 'del', dir, name]  ['zk', 'rmdir', dir]  ['zk', 'mkdir', dir]
  ['zk', 'node', 'alloc'|'servers'|'traits', content | None]       ['zk', 'events']  (queue consumed)
  ['sync', 'coll', use_match, [entity, ...]]      cellsync._sync_collection(zk, entities, '/app-groups', match)
  ['sync', 'parts', [partition, ...]]             cellsync.sync_partitions()
  ['sync', 'alloc', [alloc, ...]]                 cellsync.sync_allocations()    (allocs of other cells are in LDAP too)
  ['sync', 'servers', [id, ...]]                  cellsync.sync_servers()
  ['sync', 'traits', {'traits': value} | {}]      cellsync.sync_traits()
  ['sched', string]                               utils.reboot_schedule(string)
  ['sync', 'topo', [server, ...]]                 cellsync.sync_server_topology()
  ['zk', 'srv', name, kind, seed]  ['zk', 'srvdel', name]  ['zk', 'noservers']  ['zk', 'presence', names | None]
  ['zk', 'aux', 'pl'|'v'|'vh', names]  ['zk', 'bucket', name, kind]  ['zk', 'cell', names]     noise for the topology
Observation after every op: the deletes and puts that were made and the whole directory / node afterwards.
"""
import copy
import json
import re
import types

import fw

NAME = 'cellsync'
DRIVER = 'CellSync'
CASES = {'quick': 240, 'thorough': 5000, 'search': 1200}
RULE = {
    'C19': 'histories of 10-26 operations over one cell: LDAP-side lists (partitions with and without limits and reboot '
           'schedules - valid, with odd int spellings, out of range, malformed, empty -, cell allocations with nested '
           'tenant ids t1:t2/cell, unit spellings, well-formed and malformed assignments, ids repeated, ids of other '
           'cells, generic collection entities with a match function) that change between syncs (add / drop / edit / '
           'duplicate), syncs repeated without a change, and ZooKeeper-side noise in between (extra nodes, nodes with '
           'children, stale or reordered content, missing directories, consumed event queue); non-trivial = some sync '
           'deleted an extra node AND some sync overwrote stale content AND some sync left an up-to-date node alone '
           'AND (a reboot schedule was converted OR an allocation sync dropped a malformed assignment or stripped a '
           'nested tenant id); server topology: LDAP server lists with and without partition labels, server nodes '
           'that are empty / JSON / YAML / stale, presence and placement nodes, stale buckets; a topology history is '
           'non-trivial when a sync completed, one deleted a server LDAP no longer has, and one wrote nothing; distinct '
           '= op-list hash',
}

COLL = '/app-groups'
DIRS = {'coll': COLL, 'parts': '/partitions'}
NODES = {'alloc': '/allocations', 'servers': '/globals/servers', 'traits': '/traits'}
EVENTS = '/events'
BUCKETS, CELLD, SRVDIR, PRESENCE = '/buckets', '/cell', '/servers', '/server.presence'
AUX = {'pl': '/placement', 'v': '/version', 'vh': '/version.history'}
DAYS = ['mon', 'tue', 'wed', 'thu', 'fri', 'sat', 'sun']

PART_NAMES = ['_default', 'p1', 'p2', 'gpu', 'P1', 'p-x']
COLL_NAMES = ['foo.web', 'foo.db', 'bar.x', 'y-1', 'a#b', 'z']
TENANTS = ['t1', 't2', 't1:t2', 't1:t2:t3', 'ops', 'a.b:c', 't"q', 'back\\sl', u'té', 'tab\tx', u'\U0001f600z']
SERVERS = ['s1.xx.com', 's2.xx.com', 's3', 'h-4', u'sü']


# ------------------------------------------------------------------------------------------------
# generator
# ------------------------------------------------------------------------------------------------
def _cpu(rng):
    return rng.choice(['0%', '10%', '100%', '250%', '1000%', '055%'])


def _size(rng):
    return rng.choice(['0G', '1G', '2G', '2048M', '500M', '1T', '10g', '1024K', '100G'])


def _tod_int(rng, hi):
    x = rng.random()
    if x < 0.5:
        v = rng.randint(0, hi)
        return rng.choice(['%d', '%02d', '%d', '%d'] ) % v
    if x < 0.6:
        return str(hi)
    if x < 0.66:
        return str(hi + 1)
    if x < 0.72:
        return rng.choice([' %d', '%d ', '+%d', '\t%d', '0_%d', '%d_0']) % rng.randint(0, 5)
    if x < 0.76:
        return rng.choice(['-1', '-0', '', 'x', '1.0', '0x1', '1__0', '_1', '1_', u'٣', '1e1', ' '])
    return str(rng.randint(0, hi))


def gen_schedule(rng):
    x = rng.random()
    if x < 0.06:
        return rng.choice(['', ',', 'mon,', ',tue', 'Mon', 'monday', 'mon;tue', 'mon/', '/1:2:3', 'mon/tue/1:2:3',
                           'mon/1:2', 'mon/1:2:3:4', 'mon/1:2:3/', ' mon', 'mon ', 'sun/23:59:60', 'sat/24:00:00',
                           'xyz/1:2:3', 'mon/1;2;3', 'mon tue'])
    entries = []
    for _ in range(rng.choice([1, 1, 2, 2, 3, 4, 7, 9])):
        d = rng.choice(DAYS)
        if rng.random() < 0.03:
            d = rng.choice(['Mon', 'mo', 'sunday', '', '0', 'tue '])
        y = rng.random()
        if y < 0.4:
            entries.append(d)
        else:
            tod = ':'.join([_tod_int(rng, 23), _tod_int(rng, 59), _tod_int(rng, 59)])
            if rng.random() < 0.03:
                tod = rng.choice(['1:2', '1:2:3:4', '', ':', '::', '12'])
            entries.append(d + '/' + tod)
    return ','.join(entries)


def gen_partition(rng, cell, name=None):
    p = {'_id': name or rng.choice(PART_NAMES), 'cell': cell, 'cpu': _cpu(rng), 'memory': _size(rng),
         'disk': _size(rng), 'limits': []}
    p['partition'] = p['_id']
    for t in rng.sample(['gpu', 'ssd', 'fast', 'big'], rng.choice([0, 0, 1, 2, 3])):
        p['limits'].append({'trait': t, 'cpu': _cpu(rng), 'memory': _size(rng), 'disk': _size(rng)})
    if rng.random() < 0.4:
        p['down-threshold'] = rng.choice([0, 1, 5, 100])
    if rng.random() < 0.3:
        p['systems'] = sorted(rng.sample(range(1, 9), rng.randint(1, 3)))
    if rng.random() < 0.15:
        p['data'] = {'k': rng.choice(['v', 1, None, [1, 2]]), 'a': {'z': 1, 'b': 2}}
    if rng.random() < 0.7:
        p['reboot-schedule'] = gen_schedule(rng)
    return p


def gen_assignment(rng):
    x = rng.random()
    pat = rng.choice(['foo.*', 'foo.web*', 'bar.x', u'prö.*', 'q"uote.*'])
    if x < 0.7:
        return {'pattern': pat, 'priority': rng.choice([0, 1, 50, 100])}
    if x < 0.8:
        return {'pattern': pat}
    if x < 0.9:
        return {'priority': rng.randint(0, 100)}
    if x < 0.95:
        return {}
    return {'pattern': pat, 'priority': rng.randint(0, 9), 'extra': rng.choice([None, 'x', 1])}


def gen_alloc(rng, cell, ident=None):
    c = cell if rng.random() < 0.8 else rng.choice(['other', cell + 'x'])
    if ident is None:
        ident = '%s/%s' % (rng.choice(TENANTS), c)
        if rng.random() < 0.02:
            ident = rng.choice(TENANTS)          # no '/': the unpacking of rsplit raises ValueError
        elif rng.random() < 0.04:
            ident = rng.choice(['/' + c, 't1/', 'a/b/' + c, '/'])
    a = {'_id': ident, 'cell': c, 'cpu': _cpu(rng), 'memory': _size(rng), 'disk': _size(rng),
         'partition': rng.choice(PART_NAMES), 'rank': rng.choice([100, 0, 99]),
         'traits': sorted(rng.sample(['gpu', 'ssd', 'fast'], rng.choice([0, 0, 1, 2])))}
    if rng.random() < 0.3:
        a['rank_adjustment'] = rng.randint(0, 10)
    if rng.random() < 0.3:
        a['max_utilization'] = rng.choice([1.0, 0.5, 2.25, 100.0])
    if rng.random() < 0.05:
        a['name'] = 'stale-name'
    x = rng.random()
    if x < 0.08:
        pass                                  # key absent
    elif x < 0.12:
        a['assignments'] = None
    else:
        a['assignments'] = [gen_assignment(rng) for _ in range(rng.choice([0, 1, 1, 2, 3, 5]))]
    return a


def gen_entity(rng, name=None):
    e = {'_id': name or rng.choice(COLL_NAMES), 'pattern': rng.choice(['foo.*', 'bar.*']),
         'group-type': rng.choice(['dns', 'lbendpoint']), 'cells': sorted(rng.sample(['c1', 'c2', 'c3'], rng.randint(0, 2)))}
    if rng.random() < 0.5:
        e['endpoints'] = rng.choice([['http'], ['http', 'ssh'], []])
    if rng.random() < 0.6:
        e['keep'] = rng.random() < 0.7
    if rng.random() < 0.2:
        e['data'] = ['b=2', 'a=1']
    return e


def gen_server(rng, name=None):
    srv = {'_id': name or rng.choice(SERVERS + ['s5', 's6', 's7', 's8'])}
    if rng.random() < 0.8:
        srv['partition'] = rng.choice(['_default', 'p1', 'gpu', None])
    return srv


def gen_topo_noise(rng):
    x = rng.random()
    names = SERVERS + ['s5', 's6', 's7', 's8', 'old1', 'old2']
    if x < 0.35:
        return ['zk', 'srv', rng.choice(names), rng.choice(['empty', 'dict', 'dict', 'noncanon', 'yaml', 'null', 'emptydict', 'same']),
                rng.randrange(1 << 30)]
    if x < 0.45:
        return ['zk', 'srvdel', rng.choice(names)]
    if x < 0.5:
        return ['zk', 'noservers']
    if x < 0.75:
        return ['zk', 'presence', None if rng.random() < 0.15 else rng.sample(names, rng.randint(0, 4))]
    if x < 0.85:
        return ['zk', 'aux', rng.choice(['pl', 'v', 'vh']), rng.sample(names, rng.randint(0, 4))]
    if x < 0.95:
        return ['zk', 'bucket', rng.choice(['pod:0000', 'pod:0001', 'pod:0002', 'pod:0003', 'rack:0000', 'rack:0005', 'rack:000A', 'rack:000F']),
                rng.choice(['garbage', '{"parent": null, "traits": 0}', '{"parent": "pod:0000", "traits": 0}', '{"traits": 0, "parent": null}'])]
    return ['zk', 'cell', rng.sample(['pod:0000', 'pod:0001', 'pod:0002', 'pod:0003', 'x'], rng.randint(0, 3))]


def _mutate_list(rng, lst, make, key='_id'):
    """LDAP-side change between two syncs."""
    x = rng.random()
    if not lst or x < 0.3:
        lst.insert(rng.randint(0, len(lst)), make(None))
    elif x < 0.5:
        del lst[rng.randrange(len(lst))]
    elif x < 0.8:
        i = rng.randrange(len(lst))
        lst[i] = make(lst[i][key])            # same id, other attributes
    elif x < 0.9:
        i = rng.randrange(len(lst))
        lst.insert(rng.randint(0, len(lst)), make(lst[i][key]))     # the id twice
    else:
        rng.shuffle(lst)


def _noise_content(rng, current):
    x = rng.random()
    if current is not None and x < 0.35:
        # same JSON value, other bytes (key order / spacing): the node is then NOT up to date
        try:
            v = json.loads(current.decode())
            return rng.choice([json.dumps(v), json.dumps(v, sort_keys=True, separators=(',', ':'))])
        except ValueError:
            pass
    if current is not None and x < 0.5:
        return current.decode('latin-1')      # rewritten with the same bytes
    return rng.choice(['', '{}', '[]', 'null', 'garbage', '{"_id": "p1"}', '{"cpu": "10%"}'])


def gen_case(rng, pid, tier):
    cell = rng.choice(['c1', 'c1', 'cellx'])
    parts = [gen_partition(rng, cell) for _ in range(rng.randint(0, 3))]
    allocs = [gen_alloc(rng, cell) for _ in range(rng.randint(0, 4))]
    ents = [gen_entity(rng) for _ in range(rng.randint(0, 4))]
    servers = rng.sample(SERVERS, rng.randint(0, 3))
    ops = []
    if rng.random() < 0.85:
        ops.append(['zk', 'presence', rng.sample(SERVERS + ['s5', 's6', 'old1', 'old2'], rng.randint(0, 3))])
    focus = rng.choice(['parts', 'parts', 'alloc', 'alloc', 'coll', 'mixed', 'mixed', 'topo'])
    topo = [gen_server(rng) for _ in range(rng.randint(0, 4))]
    for _ in range(rng.randint(10, 26)):
        x = rng.random()
        kind = focus if focus != 'mixed' and rng.random() < 0.75 else rng.choice(['parts', 'alloc', 'coll', 'servers', 'traits', 'sched', 'topo'])
        if kind == 'topo':
            if x < 0.45:
                ops.append(gen_topo_noise(rng))
            else:
                if x < 0.75:
                    _mutate_list(rng, topo, lambda n: gen_server(rng, n))
                    seen = set()
                    topo = [t for t in topo if not (t['_id'] in seen or seen.add(t['_id']))]
                ops.append(['sync', 'topo', copy.deepcopy(topo)])
            continue
        if x < 0.3:
            # ZooKeeper-side noise
            if kind in ('parts', 'coll'):
                names = PART_NAMES if kind == 'parts' else COLL_NAMES
                y = rng.random()
                nm = rng.choice(names + ['stale', 'zz.old'])
                if y < 0.6:
                    ops.append(['zk', 'set', kind, nm, ('same' if rng.random() < 0.5 else 'noise'), rng.randrange(1 << 30)])
                elif y < 0.72:
                    ops.append(['zk', 'sub', kind, nm, rng.choice(['k1', 'k2'])])
                elif y < 0.87:
                    ops.append(['zk', 'del', kind, nm])
                elif y < 0.95:
                    ops.append(['zk', 'rmdir', kind])
                else:
                    ops.append(['zk', 'mkdir', kind])
            elif kind in ('alloc', 'servers', 'traits'):
                if kind == 'alloc' and rng.random() < 0.3:
                    ops.append(['zk', 'events'])
                else:
                    ops.append(['zk', 'node', kind, rng.choice([None, 'same', 'same', 'noise', 'noise']), rng.randrange(1 << 30)])
            else:
                ops.append(['sched', gen_schedule(rng)])
            continue
        if x < 0.6:
            # LDAP-side change, then sync
            if kind == 'parts':
                _mutate_list(rng, parts, lambda n: gen_partition(rng, cell, n))
            elif kind == 'alloc':
                _mutate_list(rng, allocs, lambda n: gen_alloc(rng, cell, n))
            elif kind == 'coll':
                _mutate_list(rng, ents, lambda n: gen_entity(rng, n))
            elif kind == 'servers':
                servers = rng.sample(SERVERS, rng.randint(0, 4))
        if kind == 'parts':
            ops.append(['sync', 'parts', copy.deepcopy(parts)])
        elif kind == 'alloc':
            ops.append(['sync', 'alloc', copy.deepcopy(allocs)])
        elif kind == 'coll':
            ops.append(['sync', 'coll', rng.random() < 0.6, copy.deepcopy(ents)])
        elif kind == 'servers':
            ops.append(['sync', 'servers', list(servers)])
        elif kind == 'traits':
            t = rng.choice([{'traits': {'gpu': 1, 'ssd': 2}}, {'traits': {}}, {'traits': ['a', 'b']}, {'traits': None},
                            {'traits': 'rawstr'}, {'traits': {'b': 1, 'a': [1, {'z': 0, 'y': 1}]}}, {'traits': ''}])
            ops.append(['sync', 'traits', t])
        else:
            ops.append(['sched', gen_schedule(rng)])
    return {'cell': cell, 'ops': ops}


def case_ops(case):
    return case['ops']


def with_ops(case, ops):
    return dict(case, ops=list(ops))


# ------------------------------------------------------------------------------------------------
# protocol encoding
# ------------------------------------------------------------------------------------------------
def enc(s):
    if isinstance(s, bytes):
        s = s.decode('latin-1')
    return '.'.join(str(ord(c)) for c in s) if s else '-'


def frag(v):
    return enc(json.dumps(v, sort_keys=True))


def enc_dict(d, skip=()):
    items = ['%s=%s' % (enc(k), frag(d[k])) for k in d if k not in skip]
    return ','.join(items) if items else '{}'


def enc_many(items):
    return ';'.join(items) if items else '[]'


def _match(entity):
    return entity.get('keep', True)


def enc_entity(e, use_match):
    return '%s|%d|%s' % (enc(e['_id']), 1 if (not use_match or _match(e)) else 0, enc_dict(e, ('_id',)))


def enc_partition(p):
    return '%s|%s|%s' % (enc(p['_id']), enc(p['reboot-schedule']) if 'reboot-schedule' in p else '~',
                         enc_dict(p, ('_id', 'reboot-schedule')))


def enc_alloc(a):
    if 'assignments' not in a:
        asg = '~'
    elif a['assignments'] is None:
        asg = 'null'
    elif not a['assignments']:
        asg = '[]'
    else:
        asg = '+'.join(enc_dict(x) for x in a['assignments'])
    return '%s|%s|%s' % (enc(a['_id']), asg, enc_dict(a, ('_id', 'assignments')))


def show_dir(dump):
    if dump is None:
        return 'missing'
    return ','.join('%s:%s' % (enc(n), enc(c)) for n, c in dump) if dump else '-'


def show_csv(items):
    return ','.join(items) if items else '-'


def cmp(exp, got):
    """Deletes go in the order of a Python set, the directory is listed sorted by the harness: `x=` and `d=` are
    compared as multisets; puts (`w=`) in order."""
    if exp == got:
        return True
    e, g = exp.split(' '), got.split(' ')
    if len(e) != len(g):
        return False
    for a, b in zip(e, g):
        if a == b:
            continue
        ka, _, va = a.partition('=')
        kb, _, vb = b.partition('=')
        if ka == kb and ka in ('x', 'd', 'b', 'c', 's', 'pl', 'v', 'vh'):
            if sorted(va.split(',')) == sorted(vb.split(',')):
                continue
        return False
    return True


# ------------------------------------------------------------------------------------------------
# monitor: a direct statement of the property, independent of the model
# ------------------------------------------------------------------------------------------------
_STRICT = re.compile(r'^(%s)(/([0-9]{1,2}):([0-9]{1,2}):([0-9]{1,2}))?\Z' % '|'.join(DAYS))


def strict_schedule(s):
    """{'<weekday number>': [h, m, s]} for a schedule in the documented form `day[/HH:MM:SS],...` with plain decimal
    numbers in range; 'bad-day' if some entry names no weekday; None = not judged by the monitor."""
    out = {}
    judged = True
    for entry in s.split(','):
        m = _STRICT.match(entry)
        if entry.split('/')[0] not in DAYS:
            return 'bad-day'
        if not m:
            judged = False
            continue
        if m.group(2):
            h, mi, se = int(m.group(3)), int(m.group(4)), int(m.group(5))
            if h > 23 or mi > 59 or se > 59:
                return 'out-of-range'
            out[str(DAYS.index(m.group(1)))] = [h, mi, se]
        else:
            out[str(DAYS.index(m.group(1)))] = [23, 59, 59]
    return out if judged else None


def _loads(b):
    try:
        return json.loads(b.decode())
    except (ValueError, UnicodeDecodeError):
        return ('unparsable', b)


def monitor_dir(run, site, clause, zk, path, want):
    """want: name -> dict (the LDAP view).  The directory holds exactly these nodes with these values."""
    dump = zk.dump(path)
    have = {n: _loads(c) for n, c in (dump or [])}
    if dump is None or set(have) != set(want):
        run.hits.append(fw.Hit(clause=clause, call_site=site,
                               detail='nodes %r, LDAP has %r' % (sorted(have), sorted(want))))
        return
    for n in sorted(want):
        if have[n] != want[n]:
            run.hits.append(fw.Hit(clause=clause, call_site=site,
                                   detail='node %s holds %r, LDAP has %r' % (n, have[n], want[n])))
            return


# ------------------------------------------------------------------------------------------------
# the real code
# ------------------------------------------------------------------------------------------------
class _Admin:
    """What `context.GLOBAL.admin` hands out: fresh copies of the LDAP-side lists, as `Admin.list` / `children` do."""

    def __init__(self, cell):
        self._cell = cell
        self.parts = []
        self.allocs = []
        self.servers = []
        self.topo = []
        self.cellobj = {}

    def cell(self):
        return types.SimpleNamespace(
            partitions=lambda c: copy.deepcopy(self.parts) if c == self._cell else [],
            get=lambda c: copy.deepcopy(dict(self.cellobj, _id=c)))

    def cell_allocation(self):
        return types.SimpleNamespace(
            list=lambda attrs: [copy.deepcopy(a) for a in self.allocs if a.get('cell') == attrs.get('cell')])

    def server(self):
        def _list(attrs):
            if attrs.get('cell'):
                return copy.deepcopy(self.topo)
            return [{'_id': s, 'cell': self._cell} for s in self.servers]
        return types.SimpleNamespace(list=_list)


def _split_log(log, base):
    """Writes below `base` at depth one: (deleted names, puts in order, mkdir?, other)."""
    dels, puts, other = [], [], []
    mk = False
    for kind, path in log:
        if path == base:
            if kind == 'create':
                mk = True
            else:
                other.append('%s:%s' % (kind, path))
            continue
        if not path.startswith(base + '/'):
            other.append('%s:%s' % (kind, path))
            continue
        rel = path[len(base) + 1:]
        if '/' in rel:
            if kind != 'delete':
                other.append('%s:%s' % (kind, path))
            continue                      # a node below a child: goes with its parent
        if kind == 'delete':
            dels.append('d:' + enc(rel))
        else:
            puts.append(('c:' if kind == 'create' else 's:') + enc(rel))
    return dels, puts, mk, other


def _node_log(log, path, events=False):
    out = []
    parents = set()
    comps = path.split('/')
    for i in range(2, len(comps)):
        parents.add('/'.join(comps[:i]))
    for kind, p in log:
        if p == path and kind in ('create', 'set'):
            out.append('c:-' if kind == 'create' else 's:-')
        elif kind == 'create' and p in parents:
            continue
        elif events and kind == 'create' and p == EVENTS:
            continue
        elif events and kind == 'create' and p.startswith(EVENTS + '/'):
            out.append('e:' + enc(p[len(EVENTS) + 1:]))
        else:
            out.append('other:%s:%s' % (kind, p))
    return out


def _pod_rack(name):
    import hashlib
    n = int(hashlib.md5(name.encode()).hexdigest(), 16)
    return n >> 126, (n % (1 << 126)) % 16


def _names(zk, path):
    n = zk.node(path)
    return show_csv(sorted(enc(k) for k in n.children)) if n is not None else '-'


def _show_topo(zk):
    srv = zk.dump(SRVDIR)
    return 'b=%s c=%s s=%s pl=%s v=%s vh=%s' % (
        show_dir(zk.dump(BUCKETS) or []), _names(zk, CELLD), show_dir(srv),
        _names(zk, AUX['pl']), _names(zk, AUX['v']), _names(zk, AUX['vh']))


def _srv_content(rng, kind, cur):
    if kind == 'same' and cur is not None:
        return cur.decode('latin-1')
    if kind in ('empty', 'same'):
        return ''
    if kind == 'null':
        return 'null'
    if kind == 'emptydict':
        return '{}'
    d = {}
    for k, vals in (('parent', ['rack:0005', 'rack:000A', 'old']), ('partition', ['p1', '_default', None]),
                    ('memory', ['16G']), ('up_since', [123, 1.5]), ('traits', [[], ['a']])):
        if rng.random() < 0.6:
            d[k] = rng.choice(vals)
    if kind == 'dict':
        return json.dumps(d, sort_keys=True)
    if kind == 'noncanon':
        return json.dumps(d, sort_keys=True, separators=(',', ':')) if d else '{ }'
    # yaml
    return ''.join('%s: %s\n' % (k, 'x%s' % i) for i, k in enumerate(sorted(d))) or 'a: 1\n'


def _node(zk, path):
    n = zk.node(path)
    return '~' if n is None else enc(n.data)


def _events(zk):
    n = zk.node(EVENTS)
    return show_csv([enc(k) for k in n.children]) if n is not None else '-'


def run_impl(case, pid):
    import mock
    import random
    from treadmill import cellsync
    from treadmill import utils
    import fakezk_cellsync

    run = fw.ImplRun()
    cell = case['cell']
    zk = fakezk_cellsync.FakeZk()
    admin = _Admin(cell)
    glob = types.SimpleNamespace(cell=cell, admin=admin, zk=types.SimpleNamespace(conn=zk))
    last = {}          # kind -> had a sync before (for the resync tag)

    with mock.patch('treadmill.context.GLOBAL', glob):
        for op in case['ops']:
            del zk.log[:]
            if op[0] == 'zk':
                what = op[1]
                if what == 'set':
                    d, nm = op[2], op[3]
                    path = DIRS[d] + '/' + nm
                    cur = zk.node(path)
                    cur = cur.data if cur is not None else None
                    content = op[4]
                    if content in ('same', 'noise'):
                        content = _noise_content(random.Random(op[5]), cur)
                    zk.force(path, content.encode('latin-1'))
                    run.op('zk set %s %s %s' % (d, enc(nm), enc(content)), 'd=' + show_dir(zk.dump(DIRS[d])))
                elif what == 'sub':
                    d, nm, child = op[2], op[3], op[4]
                    if zk.node(DIRS[d] + '/' + nm) is not None:
                        zk.force(DIRS[d] + '/' + nm + '/' + child, b'x')
                        run.tags.add('grandchild')
                elif what == 'del':
                    zk.remove(DIRS[op[2]] + '/' + op[3])
                    run.op('zk del %s %s' % (op[2], enc(op[3])), 'd=' + show_dir(zk.dump(DIRS[op[2]])))
                elif what == 'rmdir':
                    zk.remove(DIRS[op[2]])
                    run.op('zk rmdir %s' % op[2], 'd=missing')
                elif what == 'mkdir':
                    if zk.node(DIRS[op[2]]) is None:
                        zk.force(DIRS[op[2]], b'')
                    run.op('zk mkdir %s' % op[2], 'd=' + show_dir(zk.dump(DIRS[op[2]])))
                elif what == 'node':
                    path = NODES[op[2]]
                    content = op[3]
                    if content is None:
                        zk.remove(path)
                        run.op('zk node %s ~' % op[2], '~')
                    else:
                        cur = zk.node(path)
                        cur = cur.data if cur is not None else None
                        if content in ('same', 'noise'):
                            content = _noise_content(random.Random(op[4]), cur)
                        zk.force(path, content.encode('latin-1'))
                        run.op('zk node %s %s' % (op[2], enc(content)), enc(content))
                elif what == 'events':
                    n = zk.node(EVENTS)
                    if n is not None:
                        n.children.clear()
                    run.op('zk events', 'ok')
                elif what == 'srv':
                    from treadmill import zkutils
                    path = SRVDIR + '/' + op[2]
                    cur = zk.node(path)
                    content = _srv_content(random.Random(op[4]), op[3], cur.data if cur is not None else None)
                    zk.force(path, content.encode('latin-1'))
                    parsed = zkutils.get(zk, path)
                    if parsed and not isinstance(parsed, dict):
                        zk.force(path, b'')
                        content, parsed = '', None
                    run.op('zk srv %s %s %s' % (enc(op[2]), enc(content), enc_dict(parsed) if parsed else '~'),
                           _show_topo(zk))
                elif what == 'srvdel':
                    zk.remove(SRVDIR + '/' + op[2])
                    run.op('zk srvdel %s' % enc(op[2]), _show_topo(zk))
                elif what == 'noservers':
                    zk.remove(SRVDIR)
                    run.op('zk noservers', _show_topo(zk))
                elif what == 'presence':
                    zk.remove(PRESENCE)
                    if op[2] is not None:
                        zk.force(PRESENCE, b'')
                        for nm in op[2]:
                            zk.force(PRESENCE + '/' + nm, b'')
                    run.op('zk presence %s' % ('~' if op[2] is None else enc_many([enc(x) for x in op[2]])), 'ok')
                elif what == 'aux':
                    zk.remove(AUX[op[2]])
                    for nm in op[3]:
                        zk.force(AUX[op[2]] + '/' + nm, b'x')
                    run.op('zk aux %s %s' % (op[2], enc_many([enc(x) for x in op[3]])), _show_topo(zk))
                elif what == 'bucket':
                    zk.force(BUCKETS + '/' + op[2], op[3].encode())
                    run.op('zk bucket %s %s' % (enc(op[2]), enc(op[3])), _show_topo(zk))
                elif what == 'cell':
                    zk.remove(CELLD)
                    for nm in op[2]:
                        zk.force(CELLD + '/' + nm, b'')
                    run.op('zk cell %s' % enc_many([enc(x) for x in op[2]]), _show_topo(zk))
                continue

            if op[0] == 'sched':
                try:
                    r = utils.reboot_schedule(op[1])
                    obs = 'ok ' + show_csv(['%d:%d:%d:%d' % ((k,) + tuple(v)) for k, v in r.items()])
                    run.tags.add('sched-direct-ok')
                except ValueError:
                    obs = 'ValueError'
                    run.tags.add('sched-direct-error')
                run.op('sched %s' % enc(op[1]), obs)
                continue

            kind = op[1]
            if kind == 'coll':
                use_match, ents = op[2], op[3]
                before = dict(zk.dump(COLL) or [])
                cellsync._sync_collection(zk, copy.deepcopy(ents), COLL,  # pylint: disable=protected-access
                                          _match if use_match else None)
                dels, puts, mk, other = _split_log(zk.log, COLL)
                run.op('sync coll %s' % enc_many([enc_entity(e, use_match) for e in ents]),
                       'x=%s w=%s d=%s' % (show_csv(sorted(dels)), show_csv((['mkdir'] if mk else []) + puts + other),
                                           show_dir(zk.dump(COLL))))
                want = {}
                for e in ents:
                    if not use_match or _match(e):
                        want[e['_id']] = {k: v for k, v in e.items() if k != '_id'}
                monitor_dir(run, 'cellsync._sync_collection', 'collection-differs-from-ldap', zk, COLL, want)
                _tags(run, 'coll', before, zk.dump(COLL), dels, puts, last)
                if use_match and any(not _match(e) for e in ents):
                    run.tags.add('coll-unmatched')
                if len({e['_id'] for e in ents}) < len(ents):
                    run.tags.add('coll-dup-id')
            elif kind == 'parts':
                parts = op[2]
                admin.parts = parts
                before = dict(zk.dump(DIRS['parts']) or [])
                cellsync.sync_partitions()
                dels, puts, mk, other = _split_log(zk.log, DIRS['parts'])
                run.op('sync parts %s' % enc_many([enc_partition(p) for p in parts]),
                       'x=%s w=%s d=%s' % (show_csv(sorted(dels)), show_csv((['mkdir'] if mk else []) + puts + other),
                                           show_dir(zk.dump(DIRS['parts']))))
                # monitor: every attribute but the schedule is what LDAP has; the schedule as documented
                want, scheds = {}, {}
                for p in parts:
                    want[p['_id']] = {k: v for k, v in p.items() if k != 'reboot-schedule'}
                    scheds[p['_id']] = p.get('reboot-schedule')
                dump = zk.dump(DIRS['parts']) or []
                have = {n: _loads(c) for n, c in dump}
                stripped = {n: ({k: v for k, v in d.items() if k != 'reboot-schedule'} if isinstance(d, dict) else d)
                            for n, d in have.items()}
                if set(stripped) != set(want) or any(stripped[n] != want[n] for n in want):
                    run.hits.append(fw.Hit(clause='partitions-differ-from-ldap', call_site='cellsync.sync_partitions',
                                           detail='zookeeper %r, LDAP %r' % (stripped, want)))
                else:
                    for n in sorted(want):
                        got = have[n].get('reboot-schedule')
                        if scheds[n] is None:
                            exp = None
                        else:
                            exp = strict_schedule(scheds[n])
                            if exp is None:
                                run.tags.add('sched-odd-spelling')
                                continue
                            if exp in ('bad-day', 'out-of-range'):
                                run.tags.add('sched-invalid')
                                exp = None
                            else:
                                run.tags.add('sched-converted')
                        if got != exp:
                            run.hits.append(fw.Hit(clause='reboot-schedule-wrong', call_site='cellsync.sync_partitions',
                                                   detail='partition %s schedule %r: zookeeper has %r, expected %r' % (
                                                       n, scheds[n], got, exp)))
                            break
                _tags(run, 'parts', before, zk.dump(DIRS['parts']), dels, puts, last)
                if len({p['_id'] for p in parts}) < len(parts):
                    run.tags.add('parts-dup-id')
                if any(p['limits'] for p in parts):
                    run.tags.add('parts-limits')
            elif kind == 'alloc':
                allocs = op[2]
                admin.allocs = allocs
                mine = [a for a in allocs if a.get('cell') == cell]
                before = zk.node(NODES['alloc'])
                before = before.data if before is not None else None
                try:
                    cellsync.sync_allocations()
                    raised = False
                except ValueError:
                    raised = True
                w = _node_log(zk.log, NODES['alloc'], events=True)
                line = 'sync alloc %s' % enc_many([enc_alloc(a) for a in mine])
                if raised:
                    run.op(line, 'ValueError n=%s ev=%s' % (_node(zk, NODES['alloc']), _events(zk)))
                    run.tags.add('alloc-id-without-slash')
                else:
                    run.op(line, 'w=%s n=%s ev=%s' % (show_csv(w), _node(zk, NODES['alloc']), _events(zk)))
                    want = []
                    for a in mine:
                        d = copy.deepcopy(a)
                        d['name'] = a['_id'].rpartition('/')[0]
                        if a.get('assignments'):
                            d['assignments'] = [x for x in a['assignments'] if 'pattern' in x and 'priority' in x]
                            if len(d['assignments']) < len(a['assignments']):
                                run.tags.add('alloc-assignment-dropped')
                        if ':' in d['name']:
                            run.tags.add('alloc-nested-tenant')
                        want.append(d)
                    node = zk.node(NODES['alloc'])
                    have = _loads(node.data) if node is not None else None
                    if have != want:
                        run.hits.append(fw.Hit(clause='allocations-differ-from-ldap', call_site='cellsync.sync_allocations',
                                               detail='zookeeper %r, LDAP %r' % (have, want)))
                    if not w:
                        run.tags.add('alloc-uptodate')
                    elif before is None:
                        run.tags.add('alloc-created')
                    else:
                        run.tags.add('alloc-overwritten')
                    if len(mine) < len(allocs):
                        run.tags.add('alloc-other-cell')
            elif kind == 'topo':
                import kazoo.exceptions
                admin.topo = op[2]
                ev0 = set(zk.node(EVENTS).children) if zk.node(EVENTS) is not None else set()
                try:
                    cellsync.sync_server_topology()
                    outcome = 'done'
                except kazoo.exceptions.NoNodeError:
                    outcome = 'nonode'
                log, order = [], []
                for kd, path in zk.log:
                    top, _, rest = path[1:].partition('/')
                    if not rest or '/' + top == EVENTS:
                        continue
                    if '/' + top == BUCKETS and kd != 'delete':
                        log.append('b:' + rest)
                    elif '/' + top == CELLD and kd != 'delete':
                        log.append('c:' + rest)
                    elif '/' + top == SRVDIR:
                        if kd == 'delete':
                            log.append('x:' + rest)
                            order.append(rest)
                        else:
                            log.append('s:' + rest)
                    elif '/' + top in AUX.values() and kd == 'delete':
                        continue
                    else:
                        log.append('other:%s:%s' % (kd, path))
                evn = zk.node(EVENTS)
                evs = ['%s:%s' % (enc(k), enc(v.data)) for k, v in (evn.children.items() if evn is not None else [])
                       if k not in ev0]
                srvs = []
                for srv in op[2]:
                    pod, rack = _pod_rack(srv['_id'])
                    srvs.append('%s|%s|%d|%d' % (enc(srv['_id']), frag(srv.get('partition')), pod, rack))
                run.op('sync topo %s %s' % (enc_many(srvs), enc_many([enc(x) for x in order])),
                       'o=%s log=%s ev=%s %s' % (outcome, show_csv([enc(x) for x in log]), show_csv(evs), _show_topo(zk)))
                run.tags.add('topo-' + outcome)
                if order:
                    run.tags.add('topo-server-deleted')
                if not log and outcome == 'done' and op[2]:
                    run.tags.add('topo-no-write')
                racks = {}
                for srv in op[2]:
                    pod, rack = _pod_rack(srv['_id'])
                    racks.setdefault(rack, set()).add(pod)
                if any(len(v) > 1 for v in racks.values()):
                    run.tags.add('topo-rack-in-two-pods')
            elif kind == 'servers':
                admin.servers = op[2]
                cellsync.sync_servers()
                w = _node_log(zk.log, NODES['servers'])
                run.op('sync servers %s' % enc_many([enc(s) for s in op[2]]),
                       'w=%s n=%s' % (show_csv(w), _node(zk, NODES['servers'])))
                run.tags.add('servers')
            elif kind == 'traits':
                admin.cellobj = op[2]
                if 'traits' not in op[2]:
                    continue
                t = op[2]['traits']
                cellsync.sync_traits()
                w = _node_log(zk.log, NODES['traits'])
                word = 'none' if t is None else ('s:' + enc(t) if isinstance(t, str) else 'j:' + frag(t))
                run.op('sync traits %s' % word, 'w=%s n=%s' % (show_csv(w), _node(zk, NODES['traits'])))
                run.tags.add('traits')
    run.nontrivial = {'deleted', 'overwritten', 'uptodate'} <= run.tags and \
        bool({'sched-converted', 'alloc-assignment-dropped', 'alloc-nested-tenant'} & run.tags) or \
        {'topo-done', 'topo-server-deleted', 'topo-no-write'} <= run.tags
    return run


def _tags(run, kind, before, dump, dels, puts, last):
    if dels:
        run.tags.add('deleted')
    if any(p.startswith('s:') for p in puts):
        run.tags.add('overwritten')
    if any(p.startswith('c:') for p in puts):
        run.tags.add('created')
    written = {p[2:] for p in puts}
    if any(enc(n) not in written for n, _ in (dump or [])):
        run.tags.add('uptodate')
    if last.get(kind) and not dels and not puts:
        run.tags.add('resync-no-write')
    last[kind] = True
    del before
