"""Engine `presence` (C17): real PresenceResourceService / EndpointPresence / trace.app.zk._unschedule
on a shared in-memory ZooKeeper fake (harness/fakezk_presence.py)  vs  Lean `TmVerif.Presence`.

Granularity: ONE ZOOKEEPER CALL.  Every request of a client runs in its own greenlet; the fake
client suspends the greenlet before each ZooKeeper call (`Client.gate`), so the schedule decides
which client performs its next call.  A session expiry of a client with a method in flight raises
SessionExpiredError out of the suspended call (the method is aborted).

Case = {'n': <clients>, 'ops': [...]}, ops (i = client index, host name of client i is host<i+1>):
  ['create', i, inst, u, data]   start on_create_request('foo.bar-<inst>-<u>', data)
  ['delete', i, inst, u]         start on_delete_request(...)
  ['retry', i]                   re-issue the create request the service asked to retry (oldest first)
  ['unreg', i, kind, h, inst, manifest]  EndpointPresence(client i, manifest, hostname=host<h>).unregister_<kind>(), run to completion
  ['unsched', i, h, inst]        trace.app.zk._unschedule as host<h>, run to completion
  ['step', i]                    client i performs its next ZooKeeper call (no-op when idle)
  ['run', i]                     client i runs to completion
  ['expire', i, keep]            session expiry; keep=0: process restart (new service object)
  ['reconnect', i]               session expiry between two calls of a method that carries on with a new session
                                 (window stream: only correspondence + 'created nodes are ephemeral and own')
  ['envput', path, payload]      another client writes a persistent node (payload: '', 'hostN', ...)
  ['envdel', path]
"""
import json

import greenlet
import kazoo.exceptions as ke
import mock

import fw
import fakezk_presence as fz

NAME = 'presence'
DRIVER = 'Presence'
CASES = {'quick': 2000, 'thorough': 40000, 'search': 4000}
RULE = {
    'C17': 'random schedules of 2-3 presence services (one ZooKeeper session each) on one shared fake '
           'ensemble: create/delete requests for successive containers of the same instance(s), watch-'
           'triggered retries, session expiry (restart or same process) at arbitrary ZooKeeper calls, '
           'interleaved at single-ZooKeeper-call granularity (70 %) or request granularity (30 %; 40 % of '
           'all cases start with the old-container/newer-container/expiry/clean-up skeleton), plus '
           'unregister_* (only while all clients are idle) / _unschedule calls run to completion and '
           'foreign persistent nodes (malformed stream: junk data squatting on presence paths, missing '
           'parent directories, requests on busy clients, retries without cause; 12 % of the cases carry the WINDOW '
           'stream: session expiry between two calls of a method that carries on with a new session '
           '(Op.reconnect, outside the histories of the theorems) on which only the model correspondence and the '
           'clause "every node a request creates is ephemeral and owned by the session of the caller" are '
           'checked); non-trivial = two clients '
           'registered containers of the same instance AND a create had to wait for a foreign node AND '
           'a delete request removed a node AND (a session expired OR a watch fired a retry); '
           'distinct = distinct op-list hash',
}

PROID = 'foo'
APP = 'foo.bar-2'      # a legal app name with an all-digit dash component (instance names are <app>#<10 digits>)
GROUP = 'g'
MAX_STEPS = 200      # fuel for 'run'


def rsrc_name(inst, u):
    return '%s-%010d-%013d' % (APP, inst, u)


def rsrc_num(inst, u):
    return inst * 1000 + u


# host names in a prefix relation (host1 / host10 / host100): node data is compared by host NAME
HOST_NAMES = {1: 'host1', 2: 'host10', 3: 'host100'}
HOST_IDS = {v: k for k, v in HOST_NAMES.items()}


def host_name(h):
    return HOST_NAMES.get(h, 'host%d' % h)


def host_id(name):
    if name in HOST_IDS:
        return HOST_IDS[name]
    if name.startswith('host') and name[4:].isdigit() and int(name[4:]) not in HOST_NAMES:
        return int(name[4:])
    return None


def encode_payload(data):
    """bytes -> (host, extra) as the model sees node data."""
    if not data:
        return (0, 0)
    s = data.decode()
    if s.startswith('{'):
        try:
            d = json.loads(s)
            h = d.get('host', '')
            a = d.get('app', '')
            if host_id(h) is not None and '#' in a:
                return (host_id(h), int(a.rpartition('#')[2]))
        except ValueError:
            pass
        return (0, 999)
    head, sep, tail = s.partition(':')
    if host_id(head) is not None:
        if not sep:
            return (host_id(head), 0)
        if tail.isdigit():
            return (host_id(head), int(tail))
    return (0, 999)


class Names(object):
    """Interning of path strings (first appearance order)."""

    def __init__(self):
        self.ids = {}

    def __call__(self, path):
        if path not in self.ids:
            self.ids[path] = len(self.ids) + 1
        return self.ids[path]


def parents_of(path):
    parts = path.split('/')[1:]
    return ['/' + '/'.join(parts[:k]) for k in range(1, len(parts))]


# ---------------------------------------------------------------------------------------------
# generator
# ---------------------------------------------------------------------------------------------

def _gen_data(rng):
    eps = []
    for _ in range(rng.choice([0, 1, 1, 2, 2, 3])):
        eps.append({'name': rng.choice(['http', 'ssh', 'http']), 'port': rng.choice([80, 22]),
                    'real_port': rng.choice([5000, 5001, 5002]), 'proto': rng.choice(['tcp', 'tcp', 'udp'])})
    data = {'endpoints': eps}
    if rng.random() < 0.4:
        data['identity_group'] = GROUP
        if rng.random() < 0.9:
            data['identity'] = rng.choice([0, 1])
    return data


def gen_case(rng, pid, tier):
    n = 2 if rng.random() < 0.8 else 3
    atomic = rng.random() < 0.3
    ninst = 1 if rng.random() < 0.6 else 2
    cur = {k: 1 for k in range(1, ninst + 1)}
    made = []                     # (i, inst, u) create requests issued so far
    ops = []
    # top-level directories usually exist; sometimes makepath has to create them
    for d in ('/running', '/endpoints', '/endpoints/' + PROID, '/identity-groups', '/identity-groups/' + GROUP):
        if rng.random() < 0.7:
            ops.append(['envput', d, ''])
    if rng.random() < 0.15:       # malformed stream: a foreign persistent node squats on a presence path
        ops.append(['envput', '/running/%s#%010d' % (APP, 1), rng.choice(['', 'host9', 'junk'])])

    def after_start(i):
        if atomic or rng.random() < 0.35:
            ops.append(['run', i])

    if rng.random() < 0.4:
        # skeleton of the hazard the property is about: old container on A, newer one of the same
        # instance on B, A's session expires, A cleans the old container up while B registers
        a, b = rng.sample(range(n), 2)
        d1, d2 = _gen_data(rng), _gen_data(rng)
        if rng.random() < 0.5:
            d2['endpoints'] = list(d1['endpoints'])
        ops.append(['create', a, 1, 1, d1])
        ops.append(['run', a])
        made.append((a, 1, 1))
        if rng.random() < 0.6:
            ops.append(['create', b, 1, 2, d2])
            ops.append(['run', b])
        if rng.random() < 0.7:
            ops.append(['expire', a, 1 if rng.random() < 0.7 else 0])
        ops.append(['retry', b] if rng.random() < 0.5 else ['create', b, 1, 2, d2])
        made.append((b, 1, 2))
        cur[1] = 2
        for _ in range(rng.randint(0, 6)):
            ops.append(['step', b])
        ops.append(['delete', a, 1, 1])
        for _ in range(rng.randint(0, 8)):
            ops.append(['step', rng.choice([a, b])])
    for _ in range(rng.randint(8, 45)):
        r = rng.random()
        i = rng.randrange(n)
        if r < 0.22:
            inst = rng.choice(list(cur))
            if rng.random() < 0.3:
                cur[inst] += 1
            u = cur[inst] if rng.random() < 0.85 else max(1, cur[inst] - 1)
            ops.append(['create', i, inst, u, _gen_data(rng)])
            made.append((i, inst, u))
            after_start(i)
        elif r < 0.38:
            if made and rng.random() < 0.85:
                i, inst, u = rng.choice(made)
                if rng.random() < 0.15:
                    i = rng.randrange(n)
            else:
                inst, u = rng.choice(list(cur)), rng.randint(1, 3)
            ops.append(['delete', i, inst, u])
            after_start(i)
            if rng.random() < 0.5:        # the deletion may have fired another client's watch
                j = rng.randrange(n)
                ops.append(['retry', j])
                after_start(j)
        elif r < 0.66:
            for _ in range(rng.randint(1, 6)):
                ops.append(['step', rng.randrange(n) if rng.random() < 0.5 else i])
        elif r < 0.74:
            ops.append(['run', i])
        elif r < 0.84:
            ops.append(['retry', i])
            after_start(i)
        elif r < 0.91:
            ops.append(['expire', i, 1 if rng.random() < 0.5 else 0])
            if rng.random() < 0.5:
                j = rng.randrange(n)
                ops.append(['retry', j])
                after_start(j)
        elif r < 0.94:
            kind = rng.choice(['running', 'endpoints', 'identity'])
            ops.append(['unreg', i, kind, rng.randint(1, n), rng.choice(list(cur)), _gen_data(rng)])
        elif r < 0.97:
            inst = rng.choice(list(cur))
            h = rng.randint(1, n)
            if rng.random() < 0.8:
                ops.append(['envput', '/scheduled/%s#%010d' % (APP, inst), ''])
            if rng.random() < 0.6:
                ops.append(['envput', '/placement/%s/%s#%010d' % (host_name(rng.randint(1, n)), APP, inst), ''])
            if rng.random() < 0.5:
                ops.append(['unsched', i, h, inst])
            else:
                # the terminal event of a container is published; meanwhile the master may move the instance
                import random as _random
                if _random.Random(repr(rng.getstate()[1][:4])).random() < 0.3:
                    # (side stream) the session expires between the placement check and the delete; the master
                    # moves the instance; whatever the client library does next, the decision is stale
                    ops.append(['publish', i, h, inst, 'cutdelete'])
                    ops.append(['envdel', '/placement/%s/%s#%010d' % (host_name(h), APP, inst)])
                    ops.append(['envput', '/placement/%s/%s#%010d' % (host_name(h % n + 1), APP, inst), ''])
                    ops.append(['run', i])
                    continue
                ops.append(['publish', i, h, inst])
                for _ in range(rng.randint(0, 3)):
                    x = rng.random()
                    if x < 0.4:
                        ops.append(['step', i])
                    elif x < 0.7:
                        ops.append(['envdel', '/placement/%s/%s#%010d' % (host_name(h), APP, inst)])
                    else:
                        ops.append(['envput', '/placement/%s/%s#%010d' % (host_name(rng.randint(1, n)), APP, inst), ''])
                ops.append(['run', i])
        else:
            p = rng.choice(['/running/%s#%010d' % (APP, rng.choice(list(cur))),
                            '/identity-groups/%s/%d' % (GROUP, rng.choice([0, 1])),
                            '/placement/%s/%s#%010d' % (host_name(rng.randint(1, n)), APP, rng.choice(list(cur)))])
            if rng.random() < 0.5:
                ops.append(['envput', p, rng.choice(['', 'host9', 'junk'])])
                import random as _random3
                r3 = _random3.Random(repr(rng.getstate()[1][:4]))
                if r3.random() < 0.3:
                    # (side stream) a node somebody else keeps for one of OUR hosts (payload = that host's name)
                    ops[-1][2] = host_name(r3.randint(1, n))
            else:
                ops.append(['envdel', p])
    for i in range(n):
        if rng.random() < 0.7:
            ops.append(['run', i])
    if rng.random() < 0.12:
        # WINDOW stream (outside the theorem's histories, inside the model's): the session of a client
        # expires between two ZooKeeper calls of a method and the client library re-connects with a
        # new session; the method carries on (Op.reconnect).  Only the correspondence and the
        # 'every node a request creates is ephemeral and its own' clause are checked on these.
        for _ in range(rng.randint(1, 3)):
            at = rng.randrange(len(ops) + 1)
            i = rng.randrange(n)
            blk = []
            if rng.random() < 0.7:
                inst = rng.choice(list(cur))
                mine = [m for m in made if m[0] == i and m[1] == inst]
                u = (max(m[2] for m in mine) + 1) if mine and rng.random() < 0.7 else cur[inst]
                blk.append(['create', i, inst, u, _gen_data(rng)] if rng.random() < 0.7 else
                           ['delete', i, inst, u])
                for _ in range(rng.randint(0, 4)):
                    blk.append(['step', i])
            blk.append(['reconnect', i])
            if rng.random() < 0.7:
                blk.append(['run', i])
            ops[at:at] = blk
    return {'n': n, 'ops': ops}


def case_ops(case):
    return case['ops']


def with_ops(case, ops):
    return {'n': case['n'], 'ops': list(ops)}


# ---------------------------------------------------------------------------------------------
# real-code runner
# ---------------------------------------------------------------------------------------------

class _Proc(object):
    """One client: fake zk client + real service object + the greenlet of its in-flight method."""

    def __init__(self, idx):
        self.idx = idx
        self.client = None
        self.svc = None
        self.retries = []
        self.g = None
        self.pending = None      # (kind, path) of the suspended call
        self.res = '-'
        self.req = None          # dict describing the in-flight request (monitor context)
        self.pending_retry = []  # rsrc names the service asked to retry (harness bookkeeping)

    @property
    def busy(self):
        return self.g is not None


def _mk_service(proc, server, on_retry):
    from treadmill.services import presence_service as ps

    class Svc(ps.PresenceResourceService):
        """The real service; only the zk client lookup and retry_request (a file touch) are replaced."""
        __slots__ = ('_proc',)
        zkclient = property(lambda self: self._proc.client)

        def retry_request(self, rsrc_id):
            self._proc.retries.append(rsrc_id)
            self._proc.pending_retry.append(rsrc_id)
            on_retry(self._proc)

    proc.client = fz.Client(server, name='c%d' % proc.idx)
    with mock.patch('treadmill.sysinfo.hostname', return_value=host_name(proc.idx + 1)):
        svc = Svc()
    svc._proc = proc
    proc.svc = svc
    proc.retries = []
    proc.pending_retry = []

    def gate(kind, path):
        proc.pending = (kind, path)
        proc.g.parent.switch()
    proc.client.gate = gate


def _live_watch_objs(client):
    """Live kazoo DataWatch objects of a client (each registers a session listener while it lives)."""
    out = []
    for l in client.listeners:
        dw = getattr(l, '__self__', None)
        if dw is not None and hasattr(dw, '_path') and not getattr(dw, '_stopped', True):
            out.append(dw)
    return out


def _live_watches(client):
    return [dw._path for dw in _live_watch_objs(client)]


def _is_leaf_presence_path(path):
    parts = path.split('/')[1:]
    return ((len(parts) == 2 and parts[0] == 'running') or
            (len(parts) == 3 and parts[0] in ('endpoints', 'identity-groups')))


def run_impl(case, pid):
    from treadmill import appcfg
    from treadmill import presence as tm_presence
    from treadmill import zknamespace as z
    from treadmill.trace.app import zk as tracezk

    run = fw.ImplRun()
    n = case['n']
    names = Names()
    server = fz.Server(first_session=1)
    procs = [_Proc(i) for i in range(n)]
    cur = {'proc': None}         # client whose code is running right now
    flags = {'waiting': False, 'delnode': False, 'expire': False, 'fired': False, 'creators': {}}

    def on_retry(proc):
        if cur['proc'] is not proc:      # asked for by a watch delivery, not by the request itself
            flags['fired'] = True
            run.tags.add('watch-fired')
    for p in procs:
        _mk_service(p, server, on_retry)
    admin = fz.Client(server, name='admin', session=0)
    created_data = {}            # (client, rsrc name) -> last create request (for retries)
    registered = {}              # MONITOR: path -> (client idx, rsrc name) the node is registered for

    # ---- monitor: the statement of C17 on the fake server's mutating calls ------------------------
    def observer(kind, client, path, before, after):
        proc = cur['proc']
        req = proc.req if proc is not None else None
        if kind in ('delete', 'expire-delete'):
            owner_was = registered.pop(path, None)
        if kind == 'expire-delete' or req is None or client is admin:
            return
        site = req['site']
        window = flags.get('window', False)
        if req['kind'] == 'sync':
            # the start-up `synchronize()` of a restarted service: whatever it does, it never modifies or deletes a
            # node it does not own (registered for a container of another session, or nobody's)
            if kind in ('set', 'delete') and (before.owner is None or before.owner != client.session):
                run.hits.append(fw.Hit(clause='sync-touched-foreign-node', call_site=site,
                                       detail='%s of %s (owner %r, data %r) by the restarted service of session %s' % (
                                           kind, path, before.owner, before.data, client.session)))
            return
        if req['kind'] in ('create', 'delete'):
            if not window and kind in ('set', 'delete') and before.owner is not None and before.owner != client.session \
                    and before.owner in server.live:
                run.hits.append(fw.Hit(clause='foreign-touch', call_site=site,
                                       detail='%s of %s owned by session %s by session %s' % (
                                           kind, path, before.owner, client.session)))
            if kind == 'create' and _is_leaf_presence_path(path) and after.owner != client.session:
                run.hits.append(fw.Hit(clause='not-ephemeral-own', call_site=site,
                                       detail='%s created with owner %r by session %s' % (
                                           path, after.owner, client.session)))
            if kind == 'delete' and req['kind'] == 'delete':
                if owner_was != (proc.idx, req['rsrc']) and not window:
                    # registered for a container of ANOTHER INSTANCE (only identity-group paths are
                    # shared between instances) is reported under its own clause
                    other_inst = (owner_was is not None and
                                  owner_was[1].rsplit('-', 2)[1] != req['rsrc'].rsplit('-', 2)[1])
                    run.hits.append(fw.Hit(
                        clause='delete-identity-of-other-instance' if other_inst else 'delete-other-container',
                        call_site=site,
                        detail='%s on client %d removed %s registered for %r' % (
                            req['rsrc'], proc.idx, path, owner_was)))
                flags['delnode'] = True
        elif req['kind'] == 'unreg':
            if kind != 'delete' or encode_payload(before.data)[0] != req['host']:
                run.hits.append(fw.Hit(clause='unregister-foreign-host', call_site=site,
                                       detail='%s %s data %r as host%d' % (kind, path, before.data, req['host'])))
        elif req['kind'] == 'unsched':
            if req.get('publish') and untracked(path):
                return
            if kind != 'delete' or path != req['scheduled'] or req['placement'] not in server.nodes:
                run.hits.append(fw.Hit(clause='unschedule-not-owner', call_site=site,
                                       detail='%s %s while %s %s' % (kind, path, req['placement'],
                                                                     'exists' if req['placement'] in server.nodes else 'absent')))
    server.observers.append(observer)

    # ---- observation ----------------------------------------------------------------------------
    def untracked(path):
        # the trace events and exit summaries `publish` writes: nodes outside the model's world
        return path.startswith('/trace') or path.startswith('/finished')

    def state_line():
        tab = {p_: v_ for p_, v_ in server.table().items() if not untracked(p_)}
        zk = ','.join('%d:%d.%d:%s' % ((names(p),) + encode_payload(d) + (fz.short_session(o) if o is not None else '-',))
                      for p, (d, o) in sorted(tab.items(), key=lambda kv: names(kv[0]))) or '-'
        svs = []
        for p in procs:
            pres = []
            for app in sorted(p.svc.presence, key=lambda a: int(a.rpartition('#')[2])):
                for path, rid in p.svc.presence[app].items():
                    pres.append('%d.%d.%d' % (int(app.rpartition('#')[2]), names(path), _rnum(rid)))
            nxt = '%s:%d' % (p.pending[0], names(p.pending[1])) if p.busy and p.pending else '-'
            if p.busy and p.pending and untracked(p.pending[1]):
                nxt = '*'
            svs.append('sv%d=%s/%s/%s/%s/%s/%s' % (
                p.idx, fz.short_session(p.client.session), nxt, p.res, '+'.join(pres) or '-',
                '+'.join(str(x) for x in sorted(names(w) for w in _live_watches(p.client))) or '-',
                '+'.join(str(x) for x in sorted(_rnum(r) for r in p.retries)) or '-'))
        return 'zk=%s %s' % (zk, ' '.join(svs))

    def _rnum(rid):
        parts = rid.rsplit('-', 2)
        return rsrc_num(int(parts[1]), int(parts[2]))

    def emit(line):
        for path in server.nodes:     # make sure every existing path has an id before printing
            if path != '/' and not untracked(path):
                names(path)
        run.op(line, state_line())

    # ---- greenlet control -------------------------------------------------------------------------
    def finish(proc, res):
        req = proc.req
        proc.g = None
        proc.pending = None
        proc.res = res
        # MONITOR bookkeeping: which nodes are now registered for the container (create attempts that
        # were followed by another call of the same request, or all of them when it returned {})
        if req['kind'] == 'create':
            att = req['attempted'] if res == 'ok' else req['attempted'][:-1]
            for path in att:
                rec = server.nodes.get(path)
                if rec is not None and rec.owner == proc.client.session:
                    registered[path] = (proc.idx, req['rsrc'])
            if res == 'waiting':
                flags['waiting'] = True
                run.tags.add('waiting')
                if not req['new_retry'] and not [dw for dw in _live_watch_objs(proc.client)
                                                 if id(dw) not in req['watches_before']]:
                    run.hits.append(fw.Hit(clause='wait-lost', call_site=req['site'],
                                           detail='%s returned None without watch or retry' % req['rsrc']))
            if res == 'ok':
                flags['creators'].setdefault(req['inst'], set()).add(proc.idx)
        proc.req = None

    def resume(proc, throw=None):
        """Let `proc` perform its suspended call (or raise into it); returns when it is suspended at
        its next call or finished."""
        cur['proc'] = proc
        nret = len(proc.retries)
        try:
            if throw is not None:
                out = proc.g.throw(throw)
            else:
                out = proc.g.switch()
        finally:
            cur['proc'] = None
        if proc.req is not None and len(proc.retries) > nret:
            proc.req['new_retry'] = True
        if proc.g is not None and proc.g.dead:
            finish(proc, out)
        elif proc.g is not None and proc.req['kind'] == 'create' and proc.pending[0] == 'create':
            proc.req['attempted'].append(proc.pending[1])

    def start(proc, req, fn):
        def body():
            try:
                r = fn()
            except ke.SessionExpiredError:
                return 'aborted'
            except ke.NoNodeError:
                return 'error'
            if req['kind'] == 'create':
                return 'ok' if r == {} else 'waiting' if r is None else 'bad:%r' % (r,)
            if req['kind'] == 'delete':
                return 'ok' if r is True else 'bad:%r' % (r,)
            return 'ok'
        req.setdefault('attempted', [])
        req['new_retry'] = False
        req['watches_before'] = {id(dw): dw for dw in _live_watch_objs(proc.client)}
        proc.req = req
        proc.res = '-'
        proc.pending = None
        proc.g = greenlet.greenlet(body)
        resume(proc)

    def step(proc):
        if not proc.busy:
            return
        kind, path = proc.pending
        rec = server.nodes.get(path)
        if proc.req['kind'] == 'delete' and kind == 'get' and rec is not None and rec.owner != proc.client.session:
            run.tags.add('delete-skips-foreign')
        if proc.req['kind'] == 'create' and kind == 'set':
            run.tags.add('content-update')
        if kind == 'watch':
            run.tags.add('watch')
        resume(proc)

    def do_expire(proc, keep):
        flags['expire'] = True
        run.tags.add('expire-keep' if keep else 'expire-restart')
        cur['proc'] = None
        was_busy = proc.busy
        server.expire(proc.client)
        if was_busy:
            run.tags.add('abort-in-flight')
            resume(proc, throw=ke.SessionExpiredError())
        if keep:
            proc.client.reconnect()
        else:
            proc.client.gate = None
            _mk_service(proc, server, on_retry)      # the process restarted
            proc.res = 'aborted' if was_busy else '-'
        emit('expire %d %d' % (proc.idx, keep))
        if not keep:
            # the base service's start-up protocol ends with `synchronize()` (no ZooKeeper call in this service:
            # the model has no step for it; any call it makes shows as an unexpected step and is judged above)
            res_before = proc.res
            start(proc, {'kind': 'sync', 'site': 'PresenceResourceService.synchronize'}, proc.svc.synchronize)
            _run_to_idle(proc, step, emit)
            proc.res = res_before
            run.tags.add('restart-synchronize')

    def pub_advance(proc):
        """Run the tracked calls of a `publish` request (placement check, listing, delete) without pausing;
        stop where the next call is one of its untracked writes (or it is done)."""
        while proc.busy and not untracked(proc.pending[1]):
            step(proc)
            emit('step %d' % proc.idx)

    def items_of(proc, inst, data):
        """What on_create_request registers, as the property reads it: running, endpoints, identity."""
        hn = host_name(proc.idx + 1)
        app_name = '%s#%010d' % (APP, inst)
        items = [(z.path.running(app_name), (proc.idx + 1, 0))]
        for ep in data.get('endpoints', []):
            items.append((z.path.endpoint(app_name, ep.get('proto', 'tcp'), ep.get('name', str(ep['port']))),
                          (proc.idx + 1, ep['real_port'])))
        if data.get('identity_group'):
            import sys
            items.append((z.path.identity_group(data['identity_group'], str(data.get('identity', sys.maxsize))),
                          (proc.idx + 1, inst)))
        del hn
        return items

    def start_create(proc, inst, u, data):
        rid = rsrc_name(inst, u)
        items = items_of(proc, inst, data)
        enc = ';'.join('%d:%s:%d:%d' % (names(p), '.'.join(str(names(q)) for q in parents_of(p)) or '-', d[0], d[1])
                       for p, d in items)
        line = 'start %d create %d %d %s' % (proc.idx, rsrc_num(inst, u), inst, enc)
        if not proc.busy:
            created_data[(proc.idx, rid)] = (inst, u, data)
            if appcfg.app_name(rid) != '%s#%010d' % (APP, inst):
                run.hits.append(fw.Hit(clause='instance-name', call_site='appcfg.app_name',
                                       detail='container %s is taken for instance %s, not %s#%010d' % (
                                           rid, appcfg.app_name(rid), APP, inst)))
            start(proc, {'kind': 'create', 'site': 'on_create_request', 'rsrc': rid, 'inst': inst},
                  lambda: proc.svc.on_create_request(rid, json.loads(json.dumps(data))))
        emit(line)

    try:
        emit('init %d' % n)
        for op in case['ops']:
            k = op[0]
            if k in ('create', 'delete', 'retry', 'unreg', 'unsched', 'publish', 'step', 'run', 'expire', 'reconnect'):
                if not isinstance(op[1], int) or not 0 <= op[1] < n:
                    continue
                proc = procs[op[1]]
            if k == 'create':
                start_create(proc, op[2], op[3], op[4])
            elif k == 'retry':
                if proc.busy or not proc.pending_retry:
                    continue
                rid = proc.pending_retry.pop(0)
                if (proc.idx, rid) not in created_data:
                    continue
                run.tags.add('retry')
                inst, u, data = created_data[(proc.idx, rid)]
                start_create(proc, inst, u, data)
            elif k == 'delete':
                _, _i, inst, u = op
                rid = rsrc_name(inst, u)
                if not proc.busy:
                    start(proc, {'kind': 'delete', 'site': 'on_delete_request', 'rsrc': rid, 'inst': inst},
                          lambda: proc.svc.on_delete_request(rid))
                emit('start %d delete %d %d' % (proc.idx, rsrc_num(inst, u), inst))
            elif k == 'unreg':
                _, _i, kind, h, inst, manifest = op
                if kind not in ('running', 'endpoints', 'identity'):
                    continue
                # kill_node-style unregistration removes other sessions' ephemeral nodes by host name;
                # the property's schedules (create/delete requests + expiry) do not interleave it with
                # a presence request in flight (see registry trusted_base): only run it when all idle
                if any(q.busy for q in procs):
                    continue
                app_name = '%s#%010d' % (APP, inst)
                if kind == 'running':
                    paths = [z.path.running(app_name)]
                elif kind == 'endpoints':
                    paths = [z.path.endpoint(app_name, ep.get('proto', 'tcp'), ep.get('name', str(ep.get('port', ''))))
                             for ep in manifest.get('endpoints', [])]
                else:
                    import sys
                    paths = ([z.path.identity_group(manifest['identity_group'], str(manifest.get('identity', sys.maxsize)))]
                             if manifest.get('identity_group') else [])
                ep = tm_presence.EndpointPresence(proc.client, manifest, hostname=host_name(h), appname=app_name)
                run.tags.add('unreg-' + kind)
                start(proc, {'kind': 'unreg', 'site': 'unregister_' + kind, 'host': h},
                      getattr(ep, 'unregister_' + kind))
                emit('start %d unreg %d %d %s' % (proc.idx, h, 1 if kind == 'identity' else 0,
                                                  ','.join(str(names(p)) for p in paths) or '-'))
                _run_to_idle(proc, step, emit)
            elif k == 'unsched':
                _, _i, h, inst = op
                if proc.busy:
                    continue
                iid = '%s#%010d' % (APP, inst)
                pl, sc = z.path.placement(host_name(h), iid), z.path.scheduled(iid)

                def _uns():
                    tracezk._HOSTNAME = host_name(h)
                    return tracezk._unschedule(proc.client, iid)
                run.tags.add('unsched')
                start(proc, {'kind': 'unsched', 'site': '_unschedule', 'placement': pl, 'scheduled': sc}, _uns)
                emit('start %d unsched %d %d' % (proc.idx, names(pl), names(sc)))
                _run_to_idle(proc, step, emit)
            elif k == 'publish':
                # a container's terminal trace event: trace.app.zk.publish writes the event and the exit summary
                # (untracked nodes; other clients may act between those writes), then `_unschedule`s the instance
                # if it is still placed here - check and delete run without interleaving, as for `unsched`
                _, _i, h, inst = op[:4]
                if proc.busy:
                    continue
                iid = '%s#%010d' % (APP, inst)
                pl, sc = z.path.placement(host_name(h), iid), z.path.scheduled(iid)

                def _pub():
                    tracezk._HOSTNAME = host_name(h)
                    return tracezk.publish(proc.client, '123.45', iid, 'finished', '0.0', 'payload')
                run.tags.add('publish')
                start(proc, {'kind': 'unsched', 'site': 'publish', 'placement': pl, 'scheduled': sc, 'publish': True}, _pub)
                emit('start %d unsched %d %d' % (proc.idx, names(pl), names(sc)))
                if len(op) > 4 and op[4] == 'cutdelete':
                    # run up to the point where the delete of /scheduled/<instance> is about to be sent (the
                    # placement check has passed) and stop there: the next op expires the session
                    while proc.busy and proc.pending != ('delete', sc):
                        was_untracked = untracked(proc.pending[1])
                        step(proc)
                        emit(('ustep %d' if was_untracked else 'step %d') % proc.idx)
                    run.tags.add('publish-stopped-before-delete' if proc.busy else 'publish-nothing-to-delete')
                    # ... and there the session expires (part of this op, so that no history has the pause without
                    # the expiry: a pause alone is the check-then-act window every client of ZooKeeper has)
                    do_expire(proc, 1)
                    continue
                pub_advance(proc)
            elif k == 'step':
                if proc.busy and proc.req.get('publish'):
                    # one untracked write, then whatever tracked calls follow it in one go
                    step(proc)
                    emit('ustep %d' % proc.idx)
                    pub_advance(proc)
                    continue
                step(proc)
                emit('step %d' % proc.idx)
            elif k == 'run':
                _run_to_idle(proc, step, emit)
            elif k == 'expire':
                do_expire(proc, 1 if op[2] else 0)
            elif k == 'reconnect':
                flags['expire'] = True
                if proc.busy:
                    flags['window'] = True      # from here on the history is outside C17's theorems
                    run.tags.add('reconnect-in-flight')
                else:
                    run.tags.add('reconnect-idle')
                cur['proc'] = None
                server.expire(proc.client)
                proc.client.reconnect()
                emit('reconnect %d' % proc.idx)
            elif k == 'envput':
                _, path, payload = op
                if _is_leaf_presence_path(path) and path.startswith('/identity-groups/') and payload != '':
                    # identity nodes hold JSON (unregister_identity indexes the parsed value)
                    payload = json.dumps({'host': 'host9', 'app': '%s#%010d' % (APP, 9)})
                elif _is_leaf_presence_path(path) and path.startswith('/identity-groups/'):
                    continue
                for q in parents_of(path):
                    if q not in server.nodes:
                        admin.create(q, b'')
                        emit('envput %d 0 0' % names(q))
                rec = server.nodes.get(path)
                data = payload.encode()
                if rec is None:
                    admin.create(path, data)
                elif rec.owner is None:
                    admin.set(path, data)
                # else: an ephemeral node of a service; other clients leave it alone (model: guarded no-op)
                if payload:
                    run.tags.add('foreign-data')
                emit('envput %d %d %d' % ((names(path),) + encode_payload(data)))
            elif k == 'envdel':
                path = op[1]
                rec = server.nodes.get(path)
                if rec is not None and server.children(path):
                    continue
                if rec is not None and rec.owner is None:
                    admin.delete(path)
                emit('envdel %d' % names(path))
        run.tags.add('clients=%d' % n)
    finally:
        for p in procs:       # unwind greenlets still suspended in a call
            if p.g is not None and not p.g.dead:
                try:
                    p.g.throw(greenlet.GreenletExit)
                except Exception:  # pylint: disable=broad-except
                    pass
    if any(len(s) >= 2 for s in flags['creators'].values()):
        run.tags.add('two-clients-same-instance')
    if flags['delnode']:
        run.tags.add('delete-removed-node')
    run.nontrivial = (any(len(s) >= 2 for s in flags['creators'].values()) and flags['waiting'] and
                      flags['delnode'] and (flags['expire'] or flags['fired']))
    return run


def _run_to_idle(proc, step, emit):
    k = 0
    while proc.busy and k < MAX_STEPS:
        unt = proc.pending is not None and (proc.pending[1].startswith('/trace') or proc.pending[1].startswith('/finished'))
        step(proc)
        emit(('ustep %d' if unt else 'step %d') % proc.idx)
        k += 1


def cmp(exp, got):
    """A client whose next call goes to a node outside the model's world (`*`: a trace event or an exit summary
    that `publish` writes) is compared without that field: the model only knows the tracked call that follows."""
    if exp == got:
        return True
    if '/*/' not in exp:
        return False
    e, g = exp.split(' '), got.split(' ')
    if len(e) != len(g):
        return False
    for x, y in zip(e, g):
        if x == y:
            continue
        xs, ys = x.split('/'), y.split('/')
        if x.startswith('sv') and len(xs) == len(ys) and len(xs) > 2 and xs[1] == '*' and \
                xs[:1] == ys[:1] and xs[2:] == ys[2:]:
            continue
        return False
    return True
