"""Extractor for the `reserve` engine (C19, and the unit clause of C01)
-> lean/TmVerif/Gen/ExtReserve.lean (namespace TmVerif.ExtReserve).

Data only: the size-scale table of `treadmill.utils`, the shapes of the reservation schema
(patterns, required lists of the verbs *the closures actually reference*, bounds), the constants
of `treadmill.api.allocation`, and the facts about the running Python interpreter the unit
parsers depend on (`str.isspace`, what `int()` skips, Unicode decimal digits, `str.upper`
expansions that produce a significant character, the int/str digit limit).
"""
import ast
import json
import os
import re
import sys
import unicodedata

from fw import REPO_PY


def _cps(s):
    return '[' + ', '.join(str(ord(c)) for c in s) + ']'


def _strs(l):
    return '[' + ', '.join(json.dumps(x) for x in l) + ']'


def _chunks(items, n=12):
    items = list(items)
    rows = [', '.join(items[i:i + n]) for i in range(0, len(items), n)]
    return '[' + ',\n   '.join(rows) + ']'


def sec_size_scale(emit):
    import importlib
    utils = importlib.import_module('treadmill.utils')
    scale = utils._SIZE_SCALE      # pylint: disable=protected-access
    assert all(isinstance(k, str) and len(k) == 1 and isinstance(v, int) and v >= 0
               for k, v in scale.items())
    emit('/-- `treadmill.utils._SIZE_SCALE` as (code point of the suffix, exponent), dict order. -/')
    emit('def sizeScale : List (Nat × Nat) := [%s]' % ', '.join(
        '(%d, %d)' % (ord(k), v) for k, v in scale.items()))


def sec_time_scale(emit):
    import importlib
    utils = importlib.import_module('treadmill.utils')
    scale = utils._TIME_SCALE      # pylint: disable=protected-access
    assert all(isinstance(k, str) and len(k) == 1 and isinstance(v, int) and v >= 0
               for k, v in scale.items())
    emit('/-- `treadmill.utils._TIME_SCALE` as (code point of the suffix, seconds), dict order. -/')
    emit('def timeScale : List (Nat × Nat) := [%s]' % ', '.join(
        '(%d, %d)' % (ord(k), v) for k, v in scale.items()))


def _load(name):
    with open(os.path.join(REPO_PY, 'treadmill', 'etc', 'schema', name)) as f:
        return json.load(f)


def _resolve(doc, node):
    """Resolve a local `#/a/b` reference inside `doc`."""
    while isinstance(node, dict) and set(node) == {'$ref'}:
        ref = node['$ref']
        assert ref.startswith('#/'), ref
        cur = doc
        for part in ref[2:].split('/'):
            cur = cur[part]
        node = cur
    return node


def _reservation_decorators():
    """{'create': [schema args], 'update': [...]} of the `_ReservationAPI` closures (AST)."""
    src = open(os.path.join(REPO_PY, 'treadmill', 'api', 'allocation.py')).read()
    tree = ast.parse(src)
    out = {}
    for cls in ast.walk(tree):
        if isinstance(cls, ast.ClassDef) and cls.name == '_ReservationAPI':
            for fn in ast.walk(cls):
                if isinstance(fn, ast.FunctionDef) and fn.name in ('create', 'update'):
                    decs = [d for d in fn.decorator_list if isinstance(d, ast.Call)]
                    assert len(decs) == 1, fn.name
                    out[fn.name] = [ast.literal_eval(a) for a in decs[0].args]
    assert set(out) == {'create', 'update'}, out
    return out, tree


def sec_schema(emit):
    common = _load('common.json')
    resv = _load('reservation.json')
    decs, _tree = _reservation_decorators()
    assert resv['resource_id'] == {'type': 'string'}, resv['resource_id']
    res = resv['resource']
    assert res['type'] == 'object' and res['additionalProperties'] is False
    props = res['properties']
    for fld in ('memory', 'cpu', 'disk', 'rank', 'rank_adjustment', 'max_utilization', 'partition'):
        assert props[fld] == {'$ref': 'common.json#/%s' % fld}, (fld, props[fld])
    assert props['traits'] == {'type': 'array', 'items': {'$ref': 'common.json#/trait'}}, props['traits']
    emit('/-- property names `reservation.json#/resource` admits (additionalProperties: false). -/')
    emit('def resourceProps : List String := %s' % _strs(sorted(props)))

    for verb in ('create', 'update'):
        args = decs[verb]
        assert args[0] == {'$ref': 'reservation.json#/resource_id'}, args[0]
        allof = args[1]['allOf']
        assert allof[0] == {'$ref': 'reservation.json#/resource'} and len(allof) == 2, allof
        m = re.match(r'^reservation\.json#/verbs/(\w+)$', allof[1]['$ref'])
        assert m, allof[1]
        vdef = resv['verbs'][m.group(1)]
        assert set(vdef) == {'required'}, vdef
        emit('/-- `required` of the schema verb (`verbs/%s`) the `%s` closure is decorated with. -/'
             % (m.group(1), verb))
        emit('def %sRequired : List String := %s' % (verb, _strs(vdef['required'])))

    byt = _resolve(common, common['memory'])
    assert _resolve(common, common['disk']) == byt
    assert byt['type'] == 'string' and set(byt) == {'type', 'pattern'}
    m = re.match(r'^\^\\d\+\[([A-Za-z]+)\]\$$', byt['pattern'])
    assert m, byt['pattern']
    emit('/-- memory/disk pattern %s : one or more `\\d`, then one of these code points. -/'
         % json.dumps(byt['pattern']))
    emit('def bytesUnits : List Nat := %s' % _cps(m.group(1)))
    cpu = _resolve(common, common['cpu'])
    assert cpu['type'] == 'string' and set(cpu) == {'type', 'pattern'}
    m = re.match(r'^\^\\d\+(.)\$$', cpu['pattern'])
    assert m and m.group(1) not in '\\.[]()*+?{}|^$', cpu['pattern']
    emit('/-- cpu pattern %s : one or more `\\d`, then this code point. -/' % json.dumps(cpu['pattern']))
    emit('def cpuSuffix : Nat := %d' % ord(m.group(1)))
    trait = common['trait']
    assert trait['type'] == 'string' and set(trait) == {'type', 'maxLength'}
    emit('def traitMaxLen : Nat := %d' % trait['maxLength'])
    part = common['partition']
    assert set(part) == {'anyOf'} and len(part['anyOf']) == 2
    pstr = [a for a in part['anyOf'] if a.get('type') == 'string']
    pnull = [a for a in part['anyOf'] if a == {'type': 'null'}]
    assert len(pstr) == 1 and set(pstr[0]) == {'type', 'maxLength'}
    emit('def partitionMaxLen : Nat := %d' % pstr[0]['maxLength'])
    emit('def partitionNullable : Bool := %s' % ('true' if pnull else 'false'))
    for fld, lean, typ in (('rank', 'rank', 'integer'), ('rank_adjustment', 'rankAdj', 'integer'),
                           ('max_utilization', 'maxUtil', 'number')):
        d = common[fld]
        assert d['type'] == typ and set(d) == {'type', 'minimum', 'maximum'}, d
        assert d['minimum'] == int(d['minimum']) and d['maximum'] == int(d['maximum'])
        emit('def %sMin : Int := %d' % (lean, d['minimum']))
        emit('def %sMax : Int := %d' % (lean, d['maximum']))


def sec_api(emit):
    import importlib
    mod = importlib.import_module('treadmill.api.allocation')
    emit('/-- `api.allocation._DEFAULT_RANK` -/')
    emit('def defaultRank : Nat := %d' % int(mod._DEFAULT_RANK))    # pylint: disable=protected-access
    assert isinstance(mod._DEFAULT_PARTITION, str)                  # pylint: disable=protected-access
    emit('/-- `api.allocation._DEFAULT_PARTITION` %r (code points) -/' % mod._DEFAULT_PARTITION)
    emit('def defaultPartition : List Nat := %s' % _cps(mod._DEFAULT_PARTITION))
    # the zero-capacity object `_partition_get` returns for an unknown partition
    _decs, tree = _reservation_decorators()
    fn = [n for n in tree.body if isinstance(n, ast.FunctionDef) and n.name == '_partition_get']
    assert len(fn) == 1
    rets = [n for n in ast.walk(fn[0]) if isinstance(n, ast.Return) and isinstance(n.value, ast.Dict)]
    assert len(rets) == 1
    zero = ast.literal_eval(rets[0].value)
    assert set(zero) == {'cpu', 'memory', 'disk', 'limits'} and zero['limits'] == [], zero
    emit('/-- fallback object of `_partition_get`: %r -/' % (zero,))
    emit('def zeroCpu : List Nat := %s' % _cps(zero['cpu']))
    emit('def zeroMemory : List Nat := %s' % _cps(zero['memory']))
    emit('def zeroDisk : List Nat := %s' % _cps(zero['disk']))


def _try_int(s):
    try:
        return int(s)
    except ValueError:
        return None


def _python_facts(meaningful):
    """Exhaustive scan of all code points (about 8 s): cached per interpreter build."""
    allcp = [c for c in range(0x110000) if not 0xD800 <= c <= 0xDFFF]
    spaces = [c for c in allcp if chr(c).isspace()]
    spset = set(spaces)
    for c in allcp:     # str.strip() with no argument strips exactly str.isspace()
        if (chr(c) + 'x' + chr(c)).strip() == 'x':
            assert c in spset, c
    assert all((chr(c) + 'x' + chr(c)).strip() == 'x' for c in spaces)
    intsp = [c for c in spaces if _try_int(chr(c) + '5' + chr(c)) == 5]
    assert all(_try_int(chr(c) + '5') is None and _try_int('5' + chr(c)) is None
               for c in spaces if c not in intsp)
    zeros = [c for c in allcp if unicodedata.decimal(chr(c), None) == 0]
    dec = {}
    for z in zeros:
        for k in range(10):
            assert unicodedata.decimal(chr(z + k), None) == k, (z, k)
            dec[z + k] = k
    digit_re = re.compile(r'^\d$')
    special = []
    for c in allcp:
        ch = chr(c)
        isdec = unicodedata.decimal(ch, None) is not None
        assert isdec == (c in dec), c
        assert bool(digit_re.match(ch)) == isdec, c           # `\d` of the schema patterns
        up = ch.upper()
        if isdec:
            assert int(ch) == dec[c] and up == ch, c           # int() digit value; upper() fixed
        elif c in spset:
            assert up == ch, c
        elif c < 128:
            assert up == (chr(c - 32) if 97 <= c <= 122 else ch), c
            if not (c in meaningful or 65 <= c <= 90 or 97 <= c <= 122):
                assert _try_int('5' + ch) is None and _try_int(ch + '5') is None, c
        else:
            assert _try_int('5' + ch) is None and _try_int(ch + '5') is None, c
            if any(ord(x) in meaningful or ord(x) in dec or ord(x) in spset for x in up):
                special.append((c, [ord(x) for x in up]))
            else:
                # `up` consists of characters that are an error wherever they stand: the model
                # keeps `ch` itself (also such a character) in their place
                assert all(ord(x) >= 128 or 65 <= ord(x) <= 90 for x in up), (c, up)
    return {'spaces': spaces, 'intsp': intsp, 'zeros': zeros, 'special': special}


def sec_python(emit):
    """Facts about the interpreter the real code runs on (checked, then emitted)."""
    import hashlib
    import importlib
    from fw import LEAN_DIR
    utils = importlib.import_module('treadmill.utils')
    meaningful = (set(ord(x) for x in '+-_%') | set(ord(k) for k in utils._SIZE_SCALE) |  # pylint: disable=W0212
                  set(ord(k) for k in utils._TIME_SCALE))                                   # pylint: disable=W0212
    key = hashlib.sha1(repr((sys.version, unicodedata.unidata_version, sorted(meaningful),
                             open(__file__).read())).encode()).hexdigest()[:16]
    cache = os.path.join(LEAN_DIR, '.lake', 'pyfacts-%s.json' % key)
    facts = None
    try:
        with open(cache) as f:
            facts = json.load(f)
    except (OSError, ValueError):
        pass
    if facts is None:
        facts = _python_facts(meaningful)
        try:
            os.makedirs(os.path.dirname(cache), exist_ok=True)
            tmp = cache + '.tmp.%d' % os.getpid()
            with open(tmp, 'w') as f:
                json.dump(facts, f)
            os.replace(tmp, cache)
        except OSError:
            pass
    spaces, intsp, zeros = facts['spaces'], facts['intsp'], facts['zeros']
    special = [(c, u) for c, u in facts['special']]
    lim = sys.get_int_max_str_digits() if hasattr(sys, 'get_int_max_str_digits') else 0
    if lim:
        assert _try_int('1' * lim) is not None and _try_int('1' * (lim + 1)) is None
        assert _try_int('0' * (lim + 1)) is None and _try_int('_'.join('1' * lim)) is not None
        assert _try_int(' +' + '1' * lim + ' ') is not None
    assert _try_int('1_0') == 10 and _try_int('_1') is None and _try_int('1_') is None
    assert _try_int('1__0') is None and _try_int('+ 1') is None and _try_int('-0_1') == -1
    emit('/-- code points with `str.isspace()` (what `str.strip()` removes) -/')
    emit('def pySpace : List Nat := %s' % _chunks(str(c) for c in spaces))
    emit('/-- code points `int()` skips around the number -/')
    emit('def pyIntSpace : List Nat := %s' % _chunks(str(c) for c in intsp))
    emit('/-- code points of the Unicode decimal digits ZERO (each starts a run 0..9); this is what')
    emit('    `\\d` matches and what `int()` accepts as a digit -/')
    emit('def digitZeros : List Nat := %s' % _chunks(str(c) for c in zeros))
    emit('/-- non-ASCII code points whose `str.upper()` contains a character that is significant')
    emit('    to the parsers (unit suffix, sign, `%`, `_`, digit, space), with the expansion -/')
    emit('def upperSpecial : List (Nat × List Nat) := [%s]' % ', '.join(
        '(%d, [%s])' % (c, ', '.join(str(x) for x in u)) for c, u in special))
    emit('/-- `sys.get_int_max_str_digits()` (0 = unlimited) -/')
    emit('def intMaxStrDigits : Nat := %d' % lim)


SECTIONS = [sec_size_scale, sec_time_scale, sec_schema, sec_api, sec_python]
