"""Engine `reserve` (C19; unit parsers of C01): real `treadmill.api.allocation._check_capacity` and
the real `_ReservationAPI.create/update` closures (with the real jsonschema decorator) over a
dict-backed fake admin backend, vs the Lean model `TmVerif.Reserve` (driver `Reserve`).

Case = {'parts': [...], 'resv': [...], 'ops': [...]}:
  parts: {'cell','name','cpu','disk','memory','limits':[{'trait','cpu','disk','memory'}]}
  resv : {'alloc','cell','partition','cpu','memory','disk','traits',['rank',...]}  stored reservations
  ops  : ['create', rsrc_id, rsrc] | ['update', rsrc_id, rsrc]     the API closures
         ['check', cell, allocation, rsrc]                          `_check_capacity` directly
         ['unit', fn, string]                                       utils.cpu_units/size_to_bytes/...
Observable after every create/update: outcome (ok / which exception, with resource and trait of an
InvalidInputError) and the WHOLE store (every field of every reservation, in store order).

The monitor (`_Monitor`) states C19 on the real objects, in Python integers, with its own unit
arithmetic (regex + int, not treadmill.utils), independently of the model.
"""
import collections
import copy
import random
import re

import fw

NAME = 'reserve'
DRIVER = 'Reserve'
CASES = {'quick': 6000, 'thorough': 100000, 'search': 8000}
RULE = {
    'C19': 'partitions of 1-2 cells with 0-3 per-trait limits (one case in ten: 11-15 limits, read back through the real _ldap codec; sometimes none defined: zero-capacity '
           'fallback), 0-8 stored reservations with random traits in random equivalent unit '
           'spellings (K/M/G, case, leading zeros, non-ASCII decimal digits, trailing newline), then '
           '3-10 requests: create / update (existing id, other partition, with and without traits) / '
           'direct _check_capacity, sized under, at and over each overall or per-trait limit by one '
           'unit (1% cpu, 1K memory/disk), plus a malformed stream (wrong types, bad patterns, missing '
           'members, null partition, ids without "/", unparsable stored strings, unit-parser fuzz). '
           'NON-TRIVIAL = some request lands within one unit of an overall or per-trait limit while '
           'carrying a limited trait shared with a stored reservation, and the case has both an '
           'accepted and a capacity-rejected request; distinct = distinct case hash',
}

KIB = {'K': 1, 'M': 1024, 'G': 1024 ** 2, 'T': 1024 ** 3}      # in K
DEFAULT = '_default'
DIMS = ('cpu', 'disk', 'memory')


# --------------------------------------------------------------------------------------------
# spelling of quantities
# --------------------------------------------------------------------------------------------

_ND_ZEROS = [0x660, 0x966, 0xff10, 0x1d7d8, 0x6f0]


def _decorate_digits(rng, digits, fancy):
    if fancy and rng.random() < 0.12:
        digits = '0' * rng.randint(1, 3) + digits
    if fancy and rng.random() < 0.06:
        z = rng.choice(_ND_ZEROS)
        digits = ''.join(chr(z + int(c)) if rng.random() < 0.7 else c for c in digits)
    return digits


def spell_bytes(rng, kib, fancy=True, units='KMG'):
    """One of the equivalent spellings of `kib` KiB."""
    opts = [u for u in units if kib % KIB[u] == 0]
    u = rng.choice(opts) if rng.random() < 0.8 else opts[0]
    s = _decorate_digits(rng, str(kib // KIB[u]), fancy)
    s += u.lower() if rng.random() < 0.3 else u
    if fancy and rng.random() < 0.04:
        s += '\n'
    return s


def spell_cpu(rng, n, fancy=True):
    s = _decorate_digits(rng, str(n), fancy) + '%'
    if fancy and rng.random() < 0.04:
        s += '\n'
    return s


# --------------------------------------------------------------------------------------------
# the monitor's own arithmetic (independent of treadmill.utils)
# --------------------------------------------------------------------------------------------

_RE_CPU = re.compile(r'^\d+%$')
_RE_BYTES = re.compile(r'^(\d+)([KkMmGgTt])$')
_POW = {'K': 1, 'M': 2, 'G': 3, 'T': 4}


def mon_cpu(s):
    if not isinstance(s, str) or not _RE_CPU.search(s):
        return None
    try:
        return int(s.strip()[:-1])
    except ValueError:        # more digits than the interpreter converts
        return None


def mon_bytes(s):
    if not isinstance(s, str):
        return None
    m = _RE_BYTES.search(s)
    if not m:
        return None
    try:
        return int(m.group(1)) * 1024 ** _POW[m.group(2).upper()]
    except ValueError:
        return None


def mon_vec(obj):
    v = (mon_cpu(obj.get('cpu')), mon_bytes(obj.get('disk')), mon_bytes(obj.get('memory')))
    return None if None in v else v


def _vsum(vs):
    t = [0, 0, 0]
    for v in vs:
        for i in range(3):
            t[i] += v[i]
    return tuple(t)


def _le(a, b):
    return all(x <= y for x, y in zip(a, b))


def _add(a, b):
    return tuple(x + y for x, y in zip(a, b))


ZERO_PART = {'cpu': '0%', 'memory': '0G', 'disk': '0G', 'limits': []}


class _Monitor:
    """C19 stated on the fake backend's content (dict store, dict partitions)."""

    def __init__(self, parts, store):
        self.parts = parts      # (name, cell) -> partition dict
        self.store = store      # (cell, alloc) -> reservation dict   (live reference)

    def part(self, name, cell):
        return self.parts.get((name, cell), ZERO_PART)

    def others(self, cell, part, alloc):
        return [r for k, r in self.store.items()
                if r['cell'] == cell and r['partition'] == part and k != (cell, alloc)]

    def wellformed(self, cell, part):
        """Everything `_check_capacity` reads for (cell, part) is a well-formed quantity, limit
        traits are distinct and stored trait lists duplicate-free."""
        p = self.part(part, cell) if part is not None else ZERO_PART
        if mon_vec(p) is None or any(mon_vec(l) is None for l in p['limits']):
            return False
        lt = [l['trait'] for l in p['limits']]
        if len(set(lt)) != len(lt):
            return False
        for r in self.store.values():
            if r['cell'] == cell and (part is None or r['partition'] == part):
                if mon_vec(r) is None or len(set(r['traits'])) != len(r['traits']):
                    return False
        return True

    def fits(self, cell, part, alloc, rsrc):
        """The statement: counted with all other reservations of the same cell and partition
        (the one being replaced excluded) the request fits the capacity and, for every trait it
        carries that has a limit, that trait's limits.  -> (fits, nearest distance to a limit, shared)"""
        req = mon_vec(rsrc)
        p = self.part(part, cell)
        oth = self.others(cell, part, alloc)
        cap = mon_vec(p)
        tot = _add(req, _vsum(mon_vec(r) for r in oth))
        ok = _le(tot, cap)
        near = min(abs(c - t) // u for c, t, u in zip(cap, tot, (1, 1024, 1024)))
        shared = False
        for lim in p['limits']:
            if lim['trait'] in rsrc.get('traits', []):
                sh = [r for r in oth if lim['trait'] in r['traits']]
                shared = shared or bool(sh)
                tt = _add(req, _vsum(mon_vec(r) for r in sh))
                lv = mon_vec(lim)
                ok = ok and _le(tt, lv)
                if sh:
                    near = min([near] + [abs(c - t) // u for c, t, u in zip(lv, tt, (1, 1024, 1024))])
        return ok, near, shared

    def exceeded(self, cell):
        """{partition: set of exceeded items (None = overall capacity, else the limit's trait)} for the
        partitions of `cell` holding reservations; value None = not evaluable (unparsable data)."""
        out = {}
        names = {r['partition'] for r in self.store.values() if r['cell'] == cell}
        for part in names:
            p = self.part(part, cell)
            rs = [r for r in self.store.values() if r['cell'] == cell and r['partition'] == part]
            lt = [l['trait'] for l in p['limits']]
            if mon_vec(p) is None or any(mon_vec(r) is None for r in rs) or \
                    any(mon_vec(l) is None for l in p['limits']) or len(set(lt)) != len(lt):
                out[part] = None        # (a partition has one limit per trait: the admin CLI replaces it)
                continue
            ex = set()
            if not _le(_vsum(mon_vec(r) for r in rs), mon_vec(p)):
                ex.add(None)
            for lim in p['limits']:
                if not _le(_vsum(mon_vec(r) for r in rs if lim['trait'] in r['traits']), mon_vec(lim)):
                    ex.add(lim['trait'])
            out[part] = ex
        return out


# --------------------------------------------------------------------------------------------
# generator (uses a shadow of the statement only to aim requests at the limits)
# --------------------------------------------------------------------------------------------

TRAITS = ['a', 'b', 'c', 'd{v1}']      # any string up to 32 characters is a legal trait name
BAD_QTY = ['10', '10GB', '-5%', '1.5G', '', 'G', '%', '5 %', '10g ', ' 7M', '1_0M', '+3G', '0x10M',
           '10T', '10B', '5%%', '1e3M', '\n5M', '5M\n\n', '٣', 'M5', '12K\x0b', '7％', 'ﬆ']
UNIT_ALPH = list('0123456789') * 3 + list('KkMmGgTtBbPpEeZzYy%') * 2 + list(' \t\n\x1c\x0b+-_.xXsS') + \
    ['٣', '१', '５', '\xa0', ' ', '\x85', 'ẗ', 'ẙ', 'ﬅ', 'ﬆ', 'ſ', 'ı', 'ß', 'K', '\x00',
     '\x7f', '\U0001d7d8', 'é']


def _unit_string(rng):
    r = rng.random()
    if r < 0.4:
        return ''.join(rng.choice(UNIT_ALPH) for _ in range(rng.randint(0, 6)))
    if r < 0.8:
        return (rng.choice(['', ' ', '\n', '\xa0', '+', '-']) +
                ''.join(rng.choice('0123456789_') for _ in range(rng.randint(0, 5))) +
                rng.choice(['', ' ', '\x1c']) +
                rng.choice(['', 'K', 'm', 'G', 'T', 'gb', 'B', 'KB', '%', 'x', 'BB', 'ﬆ', 'P', 'y']) +
                rng.choice(['', '', '\n', ' ']))
    if r < 0.82:
        return rng.choice('109') * rng.choice([4299, 4300, 4301]) + rng.choice(['G', '%', 'M', ''])
    return str(rng.randint(0, 10 ** rng.randint(1, 30))) + rng.choice('KkMmGgTt%') + rng.choice(['', 'B', 'b'])


def _time_string(rng):
    """Mostly valid durations in every spelling of the unit (utils.to_seconds)."""
    return (rng.choice(['', '', ' ', '\n', '+', '-']) +
            str(rng.choice([0, 1, 7, 30, 59, 60, 61, 100, 1440, 86400, rng.randint(0, 10 ** rng.randint(1, 12))])) +
            rng.choice(['', '', ' ', '_']) +
            rng.choice(['s', 'S', 'm', 'M', 'h', 'H', 'd', 'D', 's', 'd', '', 'w', 'ms', 'ﬆ', '%']) +
            rng.choice(['', '', '\n', ' ']))


def gen_case(rng, pid, tier):
    malformed = rng.random() < 0.2
    # a side stream (does not disturb the main one): one case in ten has partitions with 11-15 limits -
    # the directory numbers list options in hex, the reader has to find all of them
    wrng = random.Random(repr(rng.getstate()[1][:4]))
    wide = wrng.random() < 0.1
    TR = TRAITS + ['t%d' % i for i in range(12)] if wide else TRAITS       # pylint: disable=invalid-name
    cells = ['c1'] if rng.random() < 0.6 else ['c1', 'c2']
    parts = []
    pnames = {}
    for cell in cells:
        names = rng.sample(['p1', 'p2', DEFAULT], rng.randint(1, 3))
        pnames[cell] = names
        for nm in names:
            cap = (rng.choice([100, 400, 1000, 2500]), rng.choice([1, 4, 16, 64]) * 1024 ** 2,
                   rng.choice([1, 4, 16, 64]) * 1024 ** 2)
            limits = []
            for t in rng.sample(TR, wrng.randint(11, 15) if wide and wrng.random() < 0.7 else rng.choice([0, 1, 1, 2, 2, 3])):
                f = [rng.choice([0.0, 0.2, 0.2, 0.4, 0.4, 0.6, 0.6, 1.0, 1.0]) for _ in range(3)]      # 0.0: a limit of zero
                lv = (int(cap[0] * f[0]), int(cap[1] * f[1]) // 1024 * 1024, int(cap[2] * f[2]) // 1024 * 1024)
                limits.append({'trait': t, 'cpu': spell_cpu(rng, lv[0], False),
                               'disk': spell_bytes(rng, lv[1], False, 'KMGT'),
                               'memory': spell_bytes(rng, lv[2], False, 'KMGT')})
            if limits and rng.random() < 0.04:
                limits.append(dict(rng.choice(limits), cpu=spell_cpu(rng, rng.randint(0, cap[0]), False)))
            parts.append({'cell': cell, 'name': nm, 'cpu': spell_cpu(rng, cap[0], False),
                          'disk': spell_bytes(rng, cap[1], False, 'KMGT'),
                          'memory': spell_bytes(rng, cap[2], False, 'KMGT'), 'limits': limits})
    if malformed and rng.random() < 0.25 and parts:
        rng.choice(parts)[rng.choice(DIMS)] = rng.choice(BAD_QTY)
    pmap = {(p['name'], p['cell']): p for p in parts}
    store = collections.OrderedDict()
    mon = _Monitor(pmap, store)

    def headroom(cell, part, alloc, traits):
        """Free vector (cpu %, disk K, memory K) the statement leaves for a request."""
        p = mon.part(part, cell)
        if not mon.wellformed(cell, part):
            return None
        oth = mon.others(cell, part, alloc)
        free = [c - t for c, t in zip(mon_vec(p), _vsum(mon_vec(r) for r in oth))]
        tight = None
        for lim in p['limits']:
            if lim['trait'] in traits:
                sh = [r for r in oth if lim['trait'] in r['traits']]
                f2 = [c - t for c, t in zip(mon_vec(lim), _vsum(mon_vec(r) for r in sh))]
                for i in range(3):
                    if f2[i] < free[i]:
                        free[i] = f2[i]
                        tight = lim['trait']
        return [free[0], free[1] // 1024, free[2] // 1024], tight

    def sized(cell, part, alloc, traits, mode):
        hr = headroom(cell, part, alloc, traits)
        if hr is None or mode == 'random':
            v = [rng.randint(0, 300), rng.randint(0, 4 * 1024 ** 2), rng.randint(0, 4 * 1024 ** 2)]
        else:
            free = hr[0]
            if mode == 'small':
                v = [max(0, f) * rng.randint(0, 30) // 100 for f in free]
                if rng.random() < 0.5:
                    v[1] = v[1] // 1024 * 1024
                    v[2] = v[2] // 1024 * 1024
            elif mode == 'big':
                v = [max(0, f) + rng.randint(2, 50) for f in free]
            else:       # boundary: one dimension at free-1 / free / free+1, the others at or below free
                v = [max(0, f) * rng.randint(0, 100) // 100 if rng.random() < 0.7 else max(0, f) for f in free]
                i = rng.randrange(3)
                v[i] = max(0, free[i] + rng.choice([-1, 0, 0, 1]))
        return {'cpu': spell_cpu(rng, v[0]), 'disk': spell_bytes(rng, v[1]), 'memory': spell_bytes(rng, v[2])}

    def apply_shadow(kind, cell, alloc, rsrc):
        """Shadow of the *statement* (not of the code): only to aim later requests."""
        if kind == 'update':        # the reservation as it will be stored
            if (cell, alloc) not in store:
                return
            rsrc = dict({k: store[(cell, alloc)][k] for k in ('partition', 'traits')}, **rsrc)
        part = rsrc.get('partition', DEFAULT) if kind == 'create' else rsrc.get('partition')
        tr = rsrc.get('traits', [])
        if not isinstance(part, str) or not isinstance(tr, list) or not all(isinstance(t, str) for t in tr):
            return
        if mon_vec(rsrc) is None or not mon.wellformed(cell, part):
            return
        if not mon.fits(cell, part, alloc, rsrc)[0]:
            return
        key = (cell, alloc)
        if kind == 'create' and key not in store:
            store[key] = {'cell': cell, 'partition': part, 'cpu': rsrc['cpu'], 'disk': rsrc['disk'],
                          'memory': rsrc['memory'], 'traits': list(rsrc.get('traits', []))}
        elif kind == 'update' and key in store:
            store[key].update({k: v for k, v in rsrc.items() if k in ('cpu', 'disk', 'memory', 'partition', 'traits')})

    resv = []
    nres = rng.choice([0, 1, 2, 3, 4, 5, 6, 8])
    for i in range(nres):
        cell = rng.choice(cells)
        part = rng.choice(pnames[cell] + (['px'] if rng.random() < 0.05 else []))
        traits = rng.sample(TR, rng.choice([0, 1, 1, 2, 3]))
        if rng.random() < 0.03 and traits:
            traits.append(traits[0])
        alloc = ('t/r%d' if i % 3 else 'corp:eng/r%d') % i          # (tenants may be nested)
        q = sized(cell, part, alloc, traits, 'small' if rng.random() < 0.9 else 'random')
        r = {'alloc': alloc, 'cell': cell, 'partition': part, 'traits': traits, 'rank': rng.choice([100, 50, 0])}
        r.update(q)
        if malformed and rng.random() < 0.08:
            r[rng.choice(DIMS)] = rng.choice(BAD_QTY)
        resv.append(r)
        store[(cell, alloc)] = {k: copy.copy(v) for k, v in r.items() if k != 'alloc'}

    ops = []
    fresh = [nres]
    for _ in range(rng.randint(3, 10)):
        r = rng.random()
        cell = rng.choice(cells)
        existing = [k[1] for k in store if k[0] == cell]
        mode = rng.choice(['small', 'boundary', 'boundary', 'boundary', 'big'])
        if r < 0.06:
            fn = rng.choice(['cpu', 'size', 'kb', 'mb', 'sec'])
            ops.append(['unit', fn, _time_string(rng) if fn == 'sec' and rng.random() < 0.6 else _unit_string(rng)])
            continue
        part = rng.choice(pnames[cell] + (['px'] if rng.random() < 0.04 else []))
        traits = rng.sample(TR, rng.choice([0, 1, 1, 2, 2, 3]))
        if r < 0.40 or not existing:
            kind = 'create'
            if rng.random() < 0.07 and existing:
                alloc = rng.choice(existing)
            else:
                alloc = 't/r%d' % fresh[0]
                fresh[0] += 1
        elif r < 0.85:
            kind = 'update'
            alloc = rng.choice(existing) if rng.random() < 0.93 else 't/nx%d' % rng.randint(0, 3)
            if rng.random() < 0.6 and (cell, alloc) in store:       # usually stay in the partition
                part = store[(cell, alloc)]['partition']
                if rng.random() < 0.5:
                    traits = list(store[(cell, alloc)]['traits'])
        else:
            kind = 'check'
            alloc = rng.choice(existing + ['t/r%d' % fresh[0]])
        # aim at per-trait limits: carry a limited trait that a stored reservation shares
        shared = [l['trait'] for l in mon.part(part, cell)['limits']
                  if any(l['trait'] in r['traits'] for r in mon.others(cell, part, alloc))]
        if shared and rng.random() < 0.5:
            t = rng.choice(shared)
            if t not in traits:
                traits = traits + [t]
        rsrc = sized(cell, part, alloc, traits, mode)
        if kind == 'update' and (cell, alloc) in store and rng.random() < 0.18:
            # footprint-neutral update: same sizes and partition, spelled exactly as stored; only the
            # traits (hence the per-trait limits that apply) change
            st = store[(cell, alloc)]
            part = st['partition']
            rsrc = {k: st[k] for k in ('cpu', 'disk', 'memory')}
            lim_traits = [l['trait'] for l in mon.part(part, cell)['limits']] if mon.wellformed(cell, part) else []
            extra = rng.choice(lim_traits) if lim_traits and rng.random() < 0.8 else rng.choice(TR)
            traits = [t for t in st['traits'] if isinstance(t, str)]
            if extra not in traits:
                traits = traits + [extra]
        rsrc['partition'] = part
        rsrc['traits'] = traits
        if kind == 'create' and part == DEFAULT and rng.random() < 0.5:
            del rsrc['partition']
        if rng.random() < (0.3 if kind == 'update' else 0.15):
            del rsrc['traits']
        if rng.random() < 0.03 and rsrc.get('traits'):
            rsrc['traits'] = rsrc['traits'] + [rsrc['traits'][0]]
        r2 = random.Random(repr(rng.getstate()[1][:4]))
        if kind == 'update' and (cell, alloc) in store and r2.random() < 0.08:
            # (side stream) as many traits as stored, one of them repeated: every new value is among the stored ones
            st_tr = [t for t in store[(cell, alloc)].get('traits', []) if isinstance(t, str)]
            if len(set(st_tr)) >= 2:
                rsrc['traits'] = [r2.choice(st_tr)] * len(st_tr)
        if rng.random() < 0.3:
            rsrc['rank'] = rng.randint(0, 100)
        if rng.random() < 0.1:
            rsrc['rank_adjustment'] = rng.randint(0, 100)
        if rng.random() < 0.1:
            rsrc['max_utilization'] = rng.randint(0, 100)
        rid = '%s/%s' % (alloc, cell)
        if kind == 'update' and rng.random() < 0.05:
            rsrc.pop('partition', None)
        if malformed and rng.random() < 0.45:
            m = rng.random()
            if m < 0.30:
                rsrc[rng.choice(DIMS)] = rng.choice(BAD_QTY)
            elif m < 0.40:
                rsrc[rng.choice(DIMS)] = rng.choice([5, None, ['1G'], 1.5, True])
            elif m < 0.50:
                rsrc.pop(rng.choice(DIMS), None)
            elif m < 0.58:
                rsrc['partition'] = rng.choice([None, None, 7, 'p' * 33, 'p' * 32, ['p1']])
            elif m < 0.66:
                rsrc['traits'] = rng.choice([None, 'a', ['a', 5], ['t' * 33], ['t' * 32, 'a'], [None]])
            elif m < 0.74:
                rsrc[rng.choice(['rank', 'rank_adjustment', 'max_utilization'])] = rng.choice(
                    [-1, 101, 100, 0, '5', None, True])
            elif m < 0.80:
                rsrc['priority'] = 1
            elif m < 0.90:
                # (an id with more than tenant/name/cell parts - 'a/b/c/<cell>' - is no longer generated: CellAllocation.dn() keeps the
                # first two parts only, so it names the reservation a/b; a second create of it met the capacity check before the
                # existence check - a false alarm of the thorough tier, outside the property's domain of well-formed ids)
                rid = rng.choice(['noslash', '', alloc + cell, '/', cell + '/', '/' + cell])
            else:
                rsrc[rng.choice(DIMS)] = rng.choice('19') * rng.choice([4299, 4300, 4301]) + rng.choice(['%', 'M', 'K'])
        if kind == 'check':
            ops.append(['check', cell, alloc, rsrc])
        elif rng.random() < 0.05:
            # the directory fails while the existing reservations are listed: the request must fail and
            # leave nothing behind (it is not applied to the generator's shadow either)
            ops.append([kind, rid, rsrc, 'listfault'])
        else:
            ops.append([kind, rid, rsrc])
            if rid == '%s/%s' % (alloc, cell):
                apply_shadow(kind, cell, alloc, rsrc)
    return {'parts': parts, 'resv': resv, 'ops': ops}


def case_ops(case):
    return case['ops']


def with_ops(case, ops):
    return {'parts': case['parts'], 'resv': case['resv'], 'ops': list(ops)}


# --------------------------------------------------------------------------------------------
# fake admin backend
# --------------------------------------------------------------------------------------------

_FIELDS = ('cpu', 'memory', 'disk', 'rank', 'rank_adjustment', 'max_utilization')


class _FakeCellAlloc:
    """`context.GLOBAL.admin.cell_allocation()`: what `CellAllocation` does over LDAP, on a dict
    keyed (cell, allocation) in insertion order."""

    def __init__(self, store, exc):
        self.store = store
        self.exc = exc
        self.fail_list = False      # armed: the next list() fails as a lost directory connection does
        self.fired = False

    def _out(self, key):
        obj = copy.deepcopy(self.store[key])
        obj['_id'] = '%s/%s' % (key[1], key[0])
        obj['assignments'] = []
        got = self._via_ldap(key, obj)
        return obj if got is None else got

    class _StubAdmin(object):
        root_ou = 'ou=treadmill,dc=x'

        def dn(self, parts):
            return ','.join(parts + [self.root_ou])

    def _via_ldap(self, key, obj):
        """What the directory layer hands to the API for this reservation: the real `CellAllocation.to_entry` /
        `_remove_empty` / `from_entry` of treadmill.admin._ldap, with the id derived from the entry's dn by the
        real `dn()` / `_dn2cellalloc_id` (tenants may be nested: `corp:eng/r1`).  A record the directory cannot
        hold (the malformed stream's non-string fields) is handed over as it is."""
        from treadmill.admin import _ldap
        try:
            adm = _ldap.CellAllocation(self._StubAdmin())
            raw = {k_: v_ for k_, v_ in obj.items() if k_ not in ('_id', 'assignments')}
            if not all(isinstance(t_, str) for t_ in raw.get('traits', [])) or \
                    len(set(raw.get('traits', []))) != len(raw.get('traits', [])):
                return None
            entry = _ldap._remove_empty(adm.to_entry(raw))           # pylint: disable=protected-access
            back = adm.from_entry(entry, adm.dn([key[0], key[1]]))
        except Exception:       # pylint: disable=broad-except
            return None
        # a field the codec cannot hold as written (an int where the schema says str ...) keeps the written value
        for k_, v_ in obj.items():
            if k_ in ('_id', 'assignments'):
                continue
            if k_ not in back or (isinstance(v_, (int, float)) and not isinstance(v_, bool) and back[k_] != v_):
                return None
        return back

    def list(self, attrs):
        if self.fail_list:
            self.fail_list = False
            self.fired = True
            raise self.exc.AdminConnectionError('directory connection lost')
        out = []
        for key, r in self.store.items():
            if attrs.get('cell') is not None and r['cell'] != attrs['cell']:
                continue
            if attrs.get('partition') is not None and r['partition'] != attrs['partition']:
                continue        # LdapObject.list: a None attribute is not part of the query
            out.append(self._out(key))
        self._shadow_list(attrs, out)
        return out

    def _shadow_list(self, attrs, out):
        """The same listing through the REAL `CellAllocation.list` of treadmill.admin._ldap over a directory that
        evaluates the search filter it sends (conjunction of attribute=value terms over the stored entries): the ids it
        returns must be the ids of the reservations of that cell and partition (`self.list_diff` is read by the
        monitor)."""
        import re as _re
        from treadmill.admin import _ldap
        try:
            fake = self

            class _Dir(self._StubAdmin):
                def paged_search(self, search_base=None, search_filter=None, search_scope=None, attributes=None,
                                 dirty=False):
                    terms = _re.findall(r'\(([^()=&]+)=([^()]*)\)', search_filter or '')
                    res = []
                    ca = _ldap.CellAllocation(fake._StubAdmin())
                    for key, r in fake.store.items():
                        raw = {k_: v_ for k_, v_ in r.items() if k_ not in ('_id', 'assignments')}
                        entry = _ldap._remove_empty(ca.to_entry(raw))      # pylint: disable=protected-access
                        ok = True
                        for a_, v_ in terms:
                            if a_.lower() == 'objectclass':
                                continue
                            if v_ not in [str(x_) for x_ in entry.get(a_, [])]:
                                ok = False
                        if ok:
                            res.append({'dn': ca.dn([key[0], key[1]]), 'attributes': entry})
                    return res
            if not all(isinstance(v_, str) or v_ is None for v_ in attrs.values()):
                return
            got = _ldap.CellAllocation(_Dir()).list(dict(attrs))
            want_ids = sorted(str(o_.get('_id')) for o_ in out)
            got_ids = sorted(str(o_.get('_id')) for o_ in got)
            if want_ids != got_ids:
                self.list_diff = (dict(attrs), want_ids, got_ids)
            self.shadow_lists = getattr(self, 'shadow_lists', 0) + 1
        except Exception:      # pylint: disable=broad-except
            pass        # (records the codec cannot hold - the malformed stream - are not listed this way)

    def get(self, ident, dirty=False):      # pylint: disable=unused-argument
        key = (ident[0], ident[1])
        if key not in self.store:
            raise self.exc.NoSuchObjectResult(ident)
        return self._out(key)

    @staticmethod
    def _norm(cell, attrs, base=None):
        r = dict(base) if base else {'cell': cell, 'cpu': '0%', 'memory': '0G', 'disk': '0G',
                                     'partition': DEFAULT, 'traits': []}
        for f in _FIELDS:
            if f in attrs:
                if attrs[f] is None:
                    r.pop(f, None)
                else:
                    r[f] = attrs[f]
        if 'partition' in attrs:       # a None attribute is not stored; from_entry defaults it
            r['partition'] = DEFAULT if attrs['partition'] is None else attrs['partition']
        if 'traits' in attrs:
            r['traits'] = list(attrs['traits'] or [])
        return r

    def create(self, ident, attrs):
        key = (ident[0], ident[1])
        if key in self.store:
            raise self.exc.AlreadyExistsResult(ident)
        self.store[key] = self._norm(ident[0], attrs)

    def update(self, ident, attrs):
        key = (ident[0], ident[1])
        if key not in self.store:
            raise self.exc.NoSuchObjectResult(ident)
        new = self._norm(ident[0], attrs, self.store[key])
        real = self._update_via_ldap(key, attrs)
        self.store[key] = new if real is None else real

    def _update_via_ldap(self, key, attrs):
        """The update as the directory layer performs it: the real `Admin.update` (its `_diff_entries` /
        `_diff_attribute_values`) over the stored entry, decoded by the real `from_entry`.  `None`: the
        record or the request is not something the codec can hold (malformed stream)."""
        from treadmill.admin import _ldap
        import ldap3
        try:
            old = self.store[key]
            if not all(isinstance(t_, str) for t_ in list(old.get('traits', [])) + list(attrs.get('traits') or [])):
                return None
            adm = _ldap.CellAllocation(self._StubAdmin())
            stored = _ldap._remove_empty(adm.to_entry(copy.deepcopy(old)))      # pylint: disable=protected-access

            class _Dir(_ldap.Admin):
                def get(self, dn, query, attrs, paged_search=True, dirty=False):      # pylint: disable=arguments-differ
                    want = set(attrs)
                    return {k_: list(v_) for k_, v_ in stored.items() if k_.split(';', 1)[0] in want}

                def modify(self, dn, changes):
                    for attr, mods in (changes or {}).items():
                        for op_, vals in mods:
                            if op_ == ldap3.MODIFY_REPLACE:
                                stored[attr] = list(vals)
                            elif op_ == ldap3.MODIFY_ADD:
                                stored[attr] = list(stored.get(attr, [])) + list(vals)
                            elif op_ == ldap3.MODIFY_DELETE:
                                stored.pop(attr, None)
            _Dir('ldap://x', 'dc=x').update('dn', adm.to_entry(copy.deepcopy(attrs)))
            back = adm.from_entry(_ldap._remove_empty(stored))                  # pylint: disable=protected-access
        except Exception:       # pylint: disable=broad-except
            return None
        back.pop('assignments', None)
        back.pop('_id', None)
        back.setdefault('cell', key[0])
        back.setdefault('traits', [])
        want = self._norm(key[0], attrs, self.store[key])
        # (fields the codec spells differently - an int rank sent as a string ... - keep the harness' own result)
        if set(back) != set(want):
            return None
        for k_ in want:
            if k_ != 'traits' and back[k_] != want[k_] and str(back[k_]) != str(want[k_]):
                return None
        if sorted(back['traits']) == sorted(want['traits']):
            back['traits'] = list(want['traits'])      # (a multi-valued attribute has no order: the request's)
        return back


class _FakePartition:
    def __init__(self, parts, exc):
        self.parts = parts
        self.exc = exc

    def get(self, ident, dirty=False):      # pylint: disable=unused-argument
        key = (ident[0], ident[1])
        if key not in self.parts:
            raise self.exc.NoSuchObjectResult(ident)
        return _through_ldap('Partition', dict(copy.deepcopy(self.parts[key]), _id=ident[0]), ('_id',))


def _through_ldap(cls, raw, drop=()):
    """What the directory hands back for a stored object: the real `to_entry` / `_remove_empty` /
    `from_entry` of treadmill.admin._ldap (the reader that feeds `_check_capacity`).  An object the
    directory cannot hold (a non-string quantity of the malformed stream) is returned as it is."""
    from treadmill.admin import _ldap
    adm = getattr(_ldap, cls)(None)
    lt = [l.get('trait') for l in raw.get('limits', [])]
    try:
        if len(set(lt)) != len(lt):      # two limits for one trait: `_to_obj_list` is keyed by trait, no
            raise ValueError(lt)         # object written through the codec looks like that - handed back raw
        entry = _ldap._remove_empty(adm.to_entry(copy.deepcopy(raw)))      # pylint: disable=protected-access
    except Exception:       # pylint: disable=broad-except
        out = copy.deepcopy(raw)
        for k in drop:
            out.pop(k, None)
        return out
    out = adm.from_entry(entry)
    for k in drop:
        out.pop(k, None)
    return out


class _FakeAdmin:
    def __init__(self, parts, store, exc):
        self._ca = _FakeCellAlloc(store, exc)
        self._pa = _FakePartition(parts, exc)

    def cell_allocation(self):
        return self._ca

    def partition(self):
        return self._pa


_API = {}


def _api():
    """treadmill.api.allocation.API() (its closures carry the real @schema.schema decorators)."""
    if 'api' not in _API:
        import decorator
        if not hasattr(decorator, 'getargspec'):      # decorator>=5 dropped it; schema.py calls it
            decorator.getargspec = decorator.getfullargspec
        from treadmill.api import allocation
        _API['api'] = allocation.API()
        _API['mod'] = allocation
    return _API['api'], _API['mod']


# --------------------------------------------------------------------------------------------
# encoding for the driver
# --------------------------------------------------------------------------------------------

def enc(s):
    return '.'.join(str(ord(c)) for c in s) or '-'


def _valid_text(s):
    return isinstance(s, str) and not any(0xD800 <= ord(c) <= 0xDFFF for c in s)


def enc_fld(v, absent):
    if absent:
        return '~'
    if v is None:
        return 'null'
    if _valid_text(v):
        return enc(v)
    return '!'


def enc_int(d, k):
    if k not in d:
        return '~'
    v = d[k]
    if v is None:
        return 'null'
    if isinstance(v, int) and not isinstance(v, bool):
        return str(v)
    return '!'


def enc_traits(d):
    if 'traits' not in d:
        return '~'
    v = d['traits']
    if v is None:
        return 'null'
    if not isinstance(v, list):
        return '!'
    return ','.join(enc(t) if _valid_text(t) else '!' for t in v) or '[]'


def enc_list(l):
    return ','.join(enc(t) for t in l) or '[]'


def rq_line(verb, rid, rsrc):
    extra = any(k not in ('cpu', 'memory', 'disk', 'partition', 'traits', 'rank', 'rank_adjustment',
                          'max_utilization') for k in rsrc)
    return ' '.join([verb, enc(rid)] + [enc_fld(rsrc.get(k), k not in rsrc) for k in ('cpu', 'memory', 'disk', 'partition')] +
                    [enc_traits(rsrc), enc_int(rsrc, 'rank'), enc_int(rsrc, 'rank_adjustment'),
                     enc_int(rsrc, 'max_utilization'), '1' if extra else '0'])


def _oi(r, k):
    if k not in r:
        return '~'
    v = r[k]
    if isinstance(v, float) and v == int(v):
        v = int(v)          # (the directory hands max_utilization back as a float: 41 and 41.0 are one value)
    return str(v)


def dump_store(store):
    out = []
    for (cell, alloc), r in store.items():
        out.append('|'.join([enc(alloc), enc(cell), enc(r['partition']), enc(r['cpu']), enc(r['memory']),
                             enc(r['disk']), enc_list(r['traits']), _oi(r, 'rank'), _oi(r, 'rank_adjustment'),
                             _oi(r, 'max_utilization')]))
    return ';'.join(out) or '-'


def bigstr(n):
    """str(n) without the interpreter's int->str digit limit."""
    if n < 0:
        return '-' + bigstr(-n)
    parts = []
    base = 10 ** 3000
    while True:
        n, r = divmod(n, base)
        if n == 0:
            parts.append(str(r))
            break
        parts.append(str(r).rjust(3000, '0'))
    return ''.join(reversed(parts))


_RE_MSG = re.compile(r'^Not enough (cpu|disk|memory) capacity in partition\.(?: \(trait: (.*)\))?$', re.S)


def classify(exc, rid_has_slash, mod):
    import jsonschema
    from treadmill import exc as tm_exc
    from treadmill.admin import exc as admin_exc
    if isinstance(exc, jsonschema.ValidationError):
        return 'schema'
    if isinstance(exc, tm_exc.InvalidInputError):
        m = _RE_MSG.match(exc.message)
        if m and exc.source == mod.__name__:
            return 'invalid:%s:%s' % (m.group(1), enc(m.group(2)) if m.group(2) is not None else '~')
        return 'invalid:?'
    if isinstance(exc, admin_exc.NoSuchObjectResult):
        return 'notfound'
    if isinstance(exc, admin_exc.AlreadyExistsResult):
        return 'exists'
    if isinstance(exc, KeyError):
        return 'KeyError'
    if isinstance(exc, IndexError):
        return 'py:IndexError'
    if isinstance(exc, ValueError):
        return 'py:ValueError' if rid_has_slash else 'badid'
    if type(exc) is Exception:      # pylint: disable=unidiomatic-typecheck
        return 'py:Exception'
    return 'other:%s' % type(exc).__name__


# --------------------------------------------------------------------------------------------
# real code runner + monitor
# --------------------------------------------------------------------------------------------

def run_impl(case, pid):
    api, mod = _api()
    from treadmill import context
    from treadmill import utils
    from treadmill.admin import exc as admin_exc

    run = fw.ImplRun()
    parts = collections.OrderedDict()
    store = collections.OrderedDict()
    for p in case['parts']:
        if (p['name'], p['cell']) in parts:
            continue
        parts[(p['name'], p['cell'])] = {'cpu': p['cpu'], 'disk': p['disk'], 'memory': p['memory'],
                                         'limits': copy.deepcopy(p['limits'])}
        # the directory hands the limits back in its own order (options sorted by trait); which of two
        # exceeded limits an error names follows that order, so the model is given the written limits
        # in the order read back - a limit the reader loses stays in the model's list
        back = _through_ldap('Partition', dict(copy.deepcopy(parts[(p['name'], p['cell'])]), _id=p['name']))
        order = [l.get('trait') for l in back.get('limits', [])]
        lims = sorted(p['limits'], key=lambda l: order.index(l['trait']) if l['trait'] in order else len(order))
        lim = ';'.join('%s:%s:%s:%s' % (enc(l['trait']), enc(l['cpu']), enc(l['disk']), enc(l['memory']))
                       for l in lims) or '[]'
        run.op('part %s %s %s %s %s %s' % (enc(p['cell']), enc(p['name']), enc(p['cpu']), enc(p['disk']),
                                           enc(p['memory']), lim), 'ok')
    for r in case['resv']:
        key = (r['cell'], r['alloc'])
        if key in store:
            continue
        store[key] = {k: copy.deepcopy(v) for k, v in r.items() if k != 'alloc'}
        run.op('resv %s %s %s %s %s %s %s %s %s %s' % (
            enc(r['alloc']), enc(r['cell']), enc(r['partition']), enc(r['cpu']), enc(r['memory']), enc(r['disk']),
            enc_list(r['traits']), _oi(r, 'rank'), _oi(r, 'rank_adjustment'), _oi(r, 'max_utilization')), 'ok')

    mon = _Monitor(parts, store)
    fake = _FakeAdmin(parts, store, admin_exc)
    n_acc = n_rej = 0
    near_shared = False

    def monitor(kind, cell, alloc, rsrc, outcome, exc, before, schema_valid, mon_before):
        """C19 on the real outcome.  `schema_valid`: the request is one the schema admits."""
        nonlocal n_acc, n_rej, near_shared
        if not schema_valid:
            return
        wf = mon_before['wf']
        accepted = outcome in ('ok', 'exists', 'notfound')
        # -- error kind: a schema-valid request over well-formed stored data is accepted or is
        #    rejected with the input error, never another failure
        if wf and not accepted and not outcome.startswith('invalid:'):
            big = isinstance(exc, ValueError) and 'Exceeds the limit' in str(exc)
            run.hits.append(fw.Hit(clause='int-digit-limit' if big else 'error-kind', call_site=kind,
                                   detail='%s %r -> %s: %r' % (kind, rsrc, outcome, exc)))
            run.tags.add('hit:error-kind')
            return
        # -- accepted iff it fits
        if 'fits' in mon_before and (accepted or outcome.startswith('invalid:')):
            fits, near, shared = mon_before['fits']
            if accepted and not fits:
                run.hits.append(fw.Hit(clause='accepted-but-does-not-fit', call_site=kind,
                                       detail='%s %s/%s %r' % (kind, alloc, cell, rsrc)))
            if fits and not accepted:
                run.hits.append(fw.Hit(clause='fits-but-rejected', call_site=kind,
                                       detail='%s %s/%s %r -> %s' % (kind, alloc, cell, rsrc, outcome)))
            if accepted:
                n_acc += 1
            else:
                n_rej += 1
            if near <= 1:
                run.tags.add('boundary')
                if shared:
                    near_shared = True
                    run.tags.add('boundary-shared-trait')
        # -- sequence: an accepted request never takes a partition or trait over its limit
        if outcome == 'ok' and kind != 'check':
            after = mon.exceeded(cell)
            for pn in sorted(after):
                # only where the state before the request was evaluable and the item within its limit
                if after[pn] is None or before.get(pn, set()) is None:
                    continue
                for tr in sorted(after[pn] - before.get(pn, set()), key=repr):
                    clause = 'limit-exceeded-after-accept'
                    if kind == 'update' and 'traits' not in rsrc and tr is not None:
                        clause = 'trait-limit-exceeded-update-without-traits'
                    run.hits.append(fw.Hit(clause=clause, call_site=kind,
                                           detail='%s %s/%s %r: partition %s trait %s over its limit' % (
                                               kind, alloc, cell, rsrc, pn, tr)))

    saved_admin = context.GLOBAL.admin
    context.GLOBAL.admin = fake
    try:
        for op in case['ops']:
            kind = op[0]
            if kind == 'unit':
                _, fn, s = op
                f = {'cpu': utils.cpu_units, 'size': utils.size_to_bytes, 'kb': utils.kilobytes,
                     'mb': utils.megabytes, 'sec': utils.to_seconds}[fn]
                try:
                    obs = 'ok:' + bigstr(f(s))
                except ValueError:
                    obs = 'err:ValueError'
                except IndexError:
                    obs = 'err:IndexError'
                except Exception as exc:    # pylint: disable=broad-except
                    obs = 'err:Exception' if type(exc) is Exception else 'err:other:%s' % type(exc).__name__
                run.op('u %s %s' % (fn, enc(s)), obs)
                run.tags.add('unit')
                continue
            if kind == 'check':
                _, cell, alloc, rsrc = op
                rid = '%s/%s' % (alloc, cell)
                slash = True
            else:
                _, rid, rsrc = op[:3]
                slash = '/' in rid
                alloc, cell = rid.rsplit('/', 1) if slash else (None, None)
            # what is checked: the request; for update the reservation as it will be stored (the
            # stored one updated with the request) -- a missing id fails before any check
            eff = rsrc
            if kind == 'update' and slash:
                if (cell, alloc) in store:
                    eff = dict({k: copy.deepcopy(store[(cell, alloc)][k])
                                for k in ('cpu', 'disk', 'memory', 'partition', 'traits')}, **rsrc)
                else:
                    eff = None
            part = None if eff is None else \
                (eff.get('partition', DEFAULT) if kind == 'create' else eff.get('partition'))
            strs_ok = eff is not None and all(_valid_text(eff.get(k)) for k in DIMS) and \
                (part is None or _valid_text(part)) and isinstance(eff.get('traits', []), list)
            mon_before = {'wf': False}
            before = {}
            if slash and strs_ok:
                mon_before['wf'] = mon.wellformed(cell, part)
                if mon_before['wf'] and part is not None and mon_vec(eff) is not None and \
                        all(isinstance(t, str) for t in eff.get('traits', [])):
                    mon_before['fits'] = mon.fits(cell, part, alloc, eff)
                before = mon.exceeded(cell)
            arg = copy.deepcopy(rsrc)
            exc = None
            fake._ca.fail_list = kind != 'check' and len(op) > 3 and op[3] == 'listfault'      # pylint: disable=protected-access
            fake._ca.fired = False                                                               # pylint: disable=protected-access
            try:
                if kind == 'create':
                    api.reservation.create(rid, arg)
                elif kind == 'update':
                    api.reservation.update(rid, arg)
                else:
                    mod._check_capacity(cell, alloc, arg)       # pylint: disable=protected-access
                outcome = 'ok'
            except Exception as e:      # pylint: disable=broad-except
                exc = e
                outcome = classify(e, slash, mod)
            fake._ca.fail_list = False                                                           # pylint: disable=protected-access
            ld_ = getattr(fake._ca, 'list_diff', None)                                           # pylint: disable=protected-access
            if ld_ is not None:
                fake._ca.list_diff = None                                                        # pylint: disable=protected-access
                run.hits.append(fw.Hit(clause='listing-differs-from-directory', call_site='CellAllocation.list',
                                       detail='list(%r): the directory holds %r for that cell and partition, the real '
                                              'CellAllocation.list returned %r' % ld_))
            if getattr(fake._ca, 'shadow_lists', 0):                                             # pylint: disable=protected-access
                run.tags.add('real-list-shadowed')
            run.tags.add('%s:%s' % (kind, outcome.split(':')[0] if not outcome.startswith('py:') else outcome))
            if fake._ca.fired:                                                                    # pylint: disable=protected-access
                # the listing failed: the request fails with the backend's error and the store is as it was
                run.tags.add('list-fault')
                run.op('faulted', ('ok' if outcome == 'ok' else 'err:' + outcome) + ' store=' + dump_store(store))
                if outcome == 'ok' and slash and strs_ok:
                    monitor(kind, cell, alloc, rsrc, outcome, exc, before, outcome != 'schema' and slash, mon_before)
                elif outcome == 'ok':
                    run.hits.append(fw.Hit(clause='accepted-without-listing', call_site=kind,
                                           detail='%s accepted although the existing reservations could not be read' % rid))
                continue
            if kind == 'check':
                # the direct call has no schema in front: the monitor applies when the dict is one
                # the update verb would admit (all members present and well-formed)
                valid = strs_ok and mon_vec(rsrc) is not None and isinstance(part, str) and len(part) <= 32 and \
                    all(isinstance(t, str) and len(t) <= 32 for t in rsrc.get('traits', [])) and \
                    set(rsrc) <= {'cpu', 'memory', 'disk', 'partition', 'traits'}
                modelable = all(k not in rsrc or _valid_text(rsrc[k]) for k in DIMS) and \
                    ('partition' not in rsrc or rsrc['partition'] is None or _valid_text(rsrc['partition'])) and \
                    ('traits' not in rsrc or (isinstance(rsrc['traits'], list) and all(_valid_text(t) for t in rsrc['traits'])))
                if modelable:
                    line = 'check %s %s %s %s %s %s %s' % (
                        enc(cell), enc(alloc), enc_fld(rsrc.get('cpu'), 'cpu' not in rsrc),
                        enc_fld(rsrc.get('disk'), 'disk' not in rsrc), enc_fld(rsrc.get('memory'), 'memory' not in rsrc),
                        enc_fld(rsrc.get('partition'), 'partition' not in rsrc),
                        '~' if 'traits' not in rsrc else enc_list(rsrc['traits']))
                    run.op(line, 'ok' if outcome == 'ok' else 'err:' + outcome)
                else:       # the direct call got a value the model has no representation for
                    run.skipped += 1
            else:
                valid = outcome != 'schema' and slash
                obs = ('ok' if outcome == 'ok' else 'err:' + outcome) + ' store=' + dump_store(store)
                run.op(rq_line(kind, rid, rsrc), obs)
            if slash and strs_ok:
                monitor(kind, cell, alloc, rsrc, outcome, exc, before, valid, mon_before)
            elif slash and eff is None and valid and outcome != 'notfound':
                run.hits.append(fw.Hit(clause='error-kind', call_site=kind,
                                       detail='update of a missing id %s -> %s: %r' % (rid, outcome, exc)))
    finally:
        context.GLOBAL.admin = saved_admin
    if n_acc:
        run.tags.add('some-accepted')
    if n_rej:
        run.tags.add('some-rejected')
    run.nontrivial = bool(near_shared and n_acc and n_rej)
    return run
