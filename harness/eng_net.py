"""Engine `net` (C16): what a container start registers on the host is removed when it finishes.

Real code driven (in-process, nothing in /repo is touched):
  * `treadmill.runtime.linux._run.run`  (-> `runtime.allocate_network_ports`, `runtime.save_app`,
    the `shared_network` guard, `_unshare_network`)                          ["run" containers]
  * `treadmill.runtime.linux._finish.finish` (-> `load_app_safe`, `_cleanup`, the `shared_network`
    guard, `_cleanup_network`, `_cleanup_ephemeral_ports`)                   ["run" containers]
  * `_run._unshare_network` / `_finish._cleanup_network` called directly with a literal manifest
    (edge stream: colliding ports, duplicate endpoints, repeated start)      ["direct" containers]
against the real `rulefile.RuleMgr` and `endpoints.EndpointsMgr` on a temporary directory, the real
`iptables.add_ip_set/rm_ip_set` on a fake `ipset` binary with set semantics, a fake network
resource service (VIP exclusive among current allocations, reused afterwards), a fake `socket`
whose `bind` refuses a port that is already bound, a recorded `random.sample`, deterministic
`socket.gethostbyname`; `newnet`, plugins, cgroups, image, rrd, supervisor exec are stubbed.

Case = {'seed', 'ext', 'containers': [spec...], 'ops': [...]};  ops:
  ['start', i]      run / _unshare_network of container i
  ['exit', i]       the container's process is gone: its sockets are closed
  ['finish', i]     finish / _cleanup_network of container i
  ['refinish', i]   the same, but interrupted just before `network_client.delete` (allocation kept)
  ['cutfinish', i, k]  the same, but the (k+1)-th removal call (unlink_rule / rm_ip_set / unlink_all) raises
  ['plant', kind, i, j, owner]   an entry that exists on the host independently of the run under
                    test, created through the real create_rule / create_spec / add_ip_set; its key is
                    derived from container i (so that it may collide with what i registers)
  ['bind', proto, pool, offset]  some other process binds a port of the prod / non-prod range

Driver lines (lean/drivers/Net.lean): `name`, `alloc`, `release`, `bind`, `start`, `finish`,
`refinish`, `plantrule`, `plantspec`, `plantset`; after each of them the WHOLE observable state is
compared: sorted listing of the rules and endpoints directories with link targets, both IP sets,
the set of live network allocations, resp. the host's bound-port table for the port ops.
"""
import collections
import copy
import errno
import json
import math
import os
import random
import shutil
import socket as real_socket
import tempfile

import mock

import fw

NAME = 'net'
DRIVER = 'Net'
CASES = {'quick': 1000, 'thorough': 16000, 'search': 2500}
RULE = {
    'C16': 'random interleavings (6-30 ops) of start / process exit / finish / interrupted finish / '
           'repeated finish of 1-3 containers (manifests: 0-6 tcp/udp endpoints some infra, 0-4 '
           'ephemeral ports per protocol, passthrough absent/empty/1-3 hosts with duplicates, vring '
           'on/off, shared or private network, prod/non-prod environment, same or different instance '
           'name, VIP reuse) plus entries planted by other owners, on the real run()/finish() with real '
           'RuleMgr/EndpointsMgr directories; non-trivial = >=2 private-network containers with '
           'overlapping lifetimes, one of them with >=1 endpoint and >=1 of {infra, ephemeral, '
           'passthrough, vring}, and >=1 repeated or interrupted finish; distinct = case hash',
}

VIPS = ['192.168.0.%d' % k for k in range(2, 6)]
GATEWAY = '192.168.254.254'
HOSTIPS = 4                    # passthrough hosts resolve into 172.16.0.1 .. 172.16.0.HOSTIPS
FOREIGN = 'zz.other-0000000009-0000000FOREIG'   # unique name of a container outside the run
PROD_ENVS = ('prod', 'uat')
ENVS = ('prod', 'uat', 'dev', 'test')


def ip2n(ip):
    a, b, c, d = (int(x) for x in ip.split('.'))
    return ((a * 256 + b) * 256 + c) * 256 + d


IPV4_LITERALS = ['172.16.0.4', '172.16.1', '172.16.0.02', '0xac.16.0.3', '172.16.2', '172.1048577']


def resolve(host):
    """Deterministic `socket.gethostbyname`: 'h<k>...' -> 172.16.0.<k mod HOSTIPS + 1>; an IPv4 literal (in any
    spelling `inet_aton` accepts) -> its canonical dotted quad, as the real resolver returns it."""
    if host and host[0] != 'h':
        try:
            return real_socket.inet_ntoa(real_socket.inet_aton(host))
        except (OSError, TypeError, ValueError):
            pass
    digits = ''.join(ch for ch in host[1:] if ch.isdigit()) or '0'
    return '172.16.0.%d' % (int(digits) % HOSTIPS + 1)


def _resolve_or_fail(env, host):
    """`resolve`, unless a resolver outage was injected for this call."""
    if getattr(env, 'dns_fail', False):
        env.dns_fail = False
        env.cut_hit = True
        raise real_socket.gaierror(-2, 'harness: injected resolver failure')
    return resolve(host)


def unique_name(spec):
    return '%s-%s' % (spec['name'].replace('#', '-'), spec['uniqueid'].rjust(13, '0'))


# --------------------------------------------------------------------------------------
# generator
# --------------------------------------------------------------------------------------

VRINGS = [None, {}, {'cells': []}, {'cells': ['c1'], 'rules': []}]


def _gen_container(rng, idx, prev, common_pid):
    mode = 'run' if rng.random() < 0.7 else 'direct'
    if prev is not None and rng.random() < 0.3:
        name = prev['name']                      # a second container of the same instance
    else:
        name = 'proid.app%d#%010d' % (rng.randint(1, 2), rng.randint(1, 3) * 10 + idx)
    neps = rng.choice([0, 0, 1, 1, 2, 2, 3, 4, 6])
    eps = []
    for k in range(neps):
        ep = {'name': 'e%d' % (k if rng.random() < 0.9 else 0),
              'proto': rng.choice(['tcp', 'tcp', 'udp']),
              'port': rng.choice([0, 0, 80, 8000 + k, 8000])}
        t = rng.random()
        if t < 0.35:
            ep['type'] = 'infra'
        elif t < 0.45:
            ep['type'] = 'other'
        eps.append(ep)
    spec = {
        'name': name,
        'uniqueid': 'uid%04d%d' % (rng.randint(0, 9999), idx),
        'env': rng.choice(ENVS),
        'mode': mode,
        'endpoints': eps,
        'eph': {'tcp': rng.choice([0, 0, 1, 2, 4]), 'udp': rng.choice([0, 0, 0, 1, 3])},
        'vring': rng.choice(VRINGS),
        'shared_network': rng.random() < 0.15,
        'shared_ip': rng.random() < 0.2,
        'pid': common_pid if common_pid else 1000 + rng.randint(1, 40),
        'vipidx': rng.randrange(len(VIPS)),
        'collide': rng.choice([0, 0, 0, 1, 2, 5]),
    }
    if random.Random(repr(rng.getstate()[1][:4]) + 'pad').random() < 0.03:
        spec['pad'] = 1024 * 1024 + 4096
    p = rng.random()
    if p < 0.2:
        pass                                     # no 'passthrough' key at all
    elif p < 0.35:
        spec['passthrough'] = []
    else:
        spec['passthrough'] = ['h%d%s' % (rng.randint(0, 5), rng.choice(['', 'a', 'b']))
                               for _ in range(rng.randint(1, 3))]
        r_lit = random.Random(repr(rng.getstate()[1][:4]) + 'ipv4-literal')
        if r_lit.random() < 0.3:
            # (side stream) a host given as an IPv4 literal, also in the spellings inet_aton / the resolver accept
            # (short form, octal, hex): start and finish must agree on the address it stands for
            spec['passthrough'][r_lit.randrange(len(spec['passthrough']))] = r_lit.choice(IPV4_LITERALS)
    if mode == 'direct':
        # literal ports, possibly colliding (the edge stream)
        pool = list(range(5000, 5000 + rng.choice([3, 8, 40])))
        for ep in eps:
            ep['real_port'] = rng.choice(pool)
            if ep['port'] == 0:
                ep['port'] = ep['real_port']
        spec['eph'] = {'tcp': [rng.choice(pool) for _ in range(spec['eph']['tcp'])],
                       'udp': [rng.choice(pool) for _ in range(spec['eph']['udp'])]}
        if eps and rng.random() < 0.15:
            eps.append(dict(rng.choice(eps)))    # an exact duplicate endpoint
    return spec


PLANT_KINDS = ['dnat', 'snat', 'spec', 'ephdnat', 'pass', 'vring', 'infra', 'ephinfra']


def gen_case(rng, pid, tier):
    n = rng.choice([1, 2, 2, 2, 3, 3])
    common_pid = 4242 if rng.random() < 0.5 else 0
    conts = []
    for i in range(n):
        conts.append(_gen_container(rng, i, conts[-1] if conts else None, common_pid))
    ops = []
    pending = list(range(n))
    started = []
    finished = []
    nplant = rng.choice([0, 0, 1, 2, 4])
    budget = 40

    def plant():
        i = rng.randrange(n)
        ops.append(['plant', rng.choice(PLANT_KINDS), i, rng.randint(0, 3),
                    rng.choice(['foreign', 'foreign', 'foreign', 'own', 'appname', 'other'])])

    for _ in range(rng.randint(0, nplant)):
        plant()
    for _ in range(rng.choice([0, 0, 1, 3])):
        ops.append(['bind', rng.choice(['tcp', 'udp']), rng.choice(['prod', 'nonprod']), rng.randint(0, 8191)])
    while (pending or started) and budget > 0:
        budget -= 1
        r = rng.random()
        if pending and (not started or r < 0.45):
            i = pending.pop(rng.randrange(len(pending)))
            ops.append(['start', i])
            started.append(i)
        elif started and r < 0.85:
            i = started[rng.randrange(len(started))]
            x = rng.random()
            if x < 0.15:
                ops.append(['exit', i])
            elif x < 0.25:
                ops.append(['refinish', i])
                if rng.random() < 0.5:
                    ops.append(['refinish', i])
            elif x < 0.35:
                # a fault inside the clean-up (an `ipset` / unlink call fails), possibly twice, before the retry
                ops.append(['cutfinish', i, rng.choice(['dns', 'late', 'vanish', 'reply'] + [rng.randrange(0, 14)] * 4)])
                if rng.random() < 0.3:
                    ops.append(['cutfinish', i, rng.choice(['dns'] + [rng.randrange(0, 14)] * 4)])
            elif x < 0.42 and conts[i]['mode'] == 'direct':
                ops.append(['start', i])         # started twice (edge stream)
            else:
                if rng.random() < 0.5:
                    ops.append(['exit', i])
                ops.append(['finish', i])
                started.remove(i)
                finished.append(i)
                if rng.random() < 0.35:
                    ops.append(['finish', i])
        elif finished and r < 0.93:
            ops.append([rng.choice(['finish', 'refinish']), rng.choice(finished)])
        elif pending and r < 0.95:
            ops.append(['finish', rng.choice(pending)])     # finish of a container that never started
        elif nplant and rng.random() < 0.5:
            plant()
    for i in started:
        ops.append(['finish', i])
    if rng.random() < 0.3 and finished:
        ops.append(['finish', rng.choice(finished)])
    return {'seed': rng.randint(0, 10 ** 9), 'ext': '10.%d.1.1' % rng.randint(1, 3), 'containers': conts, 'ops': ops}


def case_ops(case):
    return case['ops']


def with_ops(case, ops):
    c = dict(case)
    c['ops'] = list(ops)
    return c


# --------------------------------------------------------------------------------------
# fakes
# --------------------------------------------------------------------------------------

class _Env:
    """Everything the fakes share for one case."""

    def __init__(self, case):
        self.rng = random.Random(case.get('seed', 0))
        self.bound = {'tcp': {}, 'udp': {}}      # port -> who
        self.actor = None
        self.tried = {'tcp': [], 'udp': []}
        self.closed = {'tcp': [], 'udp': []}
        self.samples = 0
        self.collide = 0
        self.ipsets = collections.defaultdict(set)
        self.nets = collections.OrderedDict()    # unique name -> allocation
        self.keep_alloc = False
        self.net_get = []
        self.rule_log = []
        self.pid = 1
        self.cut = None                          # remaining removal calls before the injected fault
        self.cut_hit = False

    def removal(self):
        """Called at the start of every removal primitive of `_cleanup_network` (unlink_rule, rm_ip_set,
        unlink_all): raises the injected fault when the budget is used up."""
        if self.cut is None:
            return
        if self.cut == 0:
            self.cut = None
            self.cut_hit = True
            raise OSError(errno.EIO, 'harness: injected fault')
        self.cut -= 1


def _make_socket_module(env):
    class FakeSock:
        def __init__(self, family, typ):
            self.kind = 'tcp' if int(typ) == int(real_socket.SOCK_STREAM) else 'udp'
            self.port = None
            self.who = env.actor

        def bind(self, addr):
            port = addr[1]
            env.tried[self.kind].append(port)
            if port in env.bound[self.kind]:
                raise real_socket.error(errno.EADDRINUSE, 'Address already in use')
            env.bound[self.kind][port] = self.who
            self.port = port

        def setsockopt(self, *_a):
            pass

        def listen(self, _n):
            pass

        def set_inheritable(self, _b):
            pass

        def getsockname(self):
            return ('0.0.0.0', self.port)

        def close(self):
            if self.port is not None and env.bound[self.kind].get(self.port) == self.who:
                del env.bound[self.kind][self.port]
                env.closed[self.kind].append(self.port)
                self.port = None

    mod = mock.Mock()
    mod.socket = FakeSock
    for a in ('AF_INET', 'SOCK_STREAM', 'SOCK_DGRAM', 'SOL_SOCKET', 'SO_REUSEADDR', 'error'):
        setattr(mod, a, getattr(real_socket, a))
    return mod


class _FakeRandom:
    """`random.sample(pool, k)`: a seeded permutation, with up to `collide` already-bound ports of
    the pool moved to the front (any permutation is a legal outcome of random.sample)."""

    def __init__(self, env):
        self.env = env

    def sample(self, pool, k):
        env = self.env
        pool = list(pool)
        n = len(pool)
        if not 0 <= k <= n:
            raise ValueError('Sample larger than population or is negative')
        # a cheap seeded permutation: an arithmetic progression with a step coprime to n
        a = env.rng.randrange(n) if n else 0
        b = 1
        for _ in range(64):
            c = env.rng.randrange(1, n) if n > 1 else 1
            if math.gcd(c, n) == 1:
                b = c
                break
        perm = [pool[(a + i * b) % n] for i in range(k)]
        kind = 'tcp' if env.samples % 2 == 0 else 'udp'
        env.samples += 1
        inpool = set(perm)
        front = [p for p in sorted(env.bound[kind]) if p in inpool][:env.collide]
        if front:
            fs = set(front)
            perm = front + [p for p in perm if p not in fs]
        return perm


class _WStop(BaseException):
    """The watcher reached its event loop."""


class _FwWatcher(object):
    """The real firewall watcher (`sproc.firewall._watcher`: its priming loop and its `on_created` / `on_deleted`
    handlers, with their reference counts) on the engine's rule directory and fake `ipset`.  The directory
    watcher is replaced by the harness telling the handlers what changed in the rule directory since the last
    look; `iptables` rule insertion / conntrack flushing and the watchdog are switched off."""

    def __init__(self, env, run, root, rules_dir, apps_dir, hits):
        from treadmill.sproc import firewall as fwmod
        from treadmill import iptables, rulefile
        self.env, self.run, self.root, self.rules_dir, self.apps_dir = env, run, root, rules_dir, apps_dir
        self.fwmod, self.iptables, self.rulefile = fwmod, iptables, rulefile
        self.hits = hits
        self.handlers = None
        self.watch = None
        self.queue = []
        self.seen = set()
        self.seen_all = set()

    def _patches(self):
        fwmod = self.fwmod
        noop = lambda *_a, **_k: None       # pylint: disable=unnecessary-lambda-assignment
        sets = self.env.ipsets

        def create_set(name, **_kw):
            sets.setdefault(name, set())
            self.env.created_sets = getattr(self.env, 'created_sets', set()) | {name}

        def flush_set(name):
            sets[name] = set()
        return [mock.patch.object(fwmod, '_configure_rules', noop),
                mock.patch.object(fwmod.iptables, 'create_chain', noop),
                mock.patch.object(fwmod.iptables, 'create_set', create_set),
                mock.patch.object(fwmod.iptables, 'flush_set', flush_set),
                mock.patch.object(fwmod.iptables, 'list_all_sets',
                                  lambda: sorted(getattr(self.env, 'created_sets', set()))),
                mock.patch.object(fwmod.iptables, 'add_rule', noop),
                mock.patch.object(fwmod.iptables, 'delete_rule', noop),
                mock.patch.object(fwmod.iptables, 'flush_pt_conntrack_table', noop),
                mock.patch.object(fwmod.iptables, 'flush_conntrack_table', noop),
                mock.patch.object(fwmod.watchdog, 'Watchdog', mock.Mock())]

    def _pt_files(self):
        out = {}
        for n in os.listdir(self.rules_dir):
            cr = self.rulefile.RuleMgr.get_rule(n)
            if cr is not None and type(cr[1]).__name__ == 'PassThroughRule':
                out[n] = cr[1].src_ip
        return out

    def _obs(self):
        counts = None
        for cell in (self.handlers[0].__closure__ or ()):
            try:
                v = cell.cell_contents
            except ValueError:
                continue
            if isinstance(v, dict) and all(isinstance(k_, str) for k_ in v):
                counts = v
        cnt = ','.join('%d:%d' % (ip2n(k_), v_) for k_, v_ in sorted(counts.items(), key=lambda kv: ip2n(kv[0]))) or '-'
        st = ','.join(str(x) for x in sorted(ip2n(i) for i in self.env.ipsets.get(self.iptables.SET_PASSTHROUGHS, ()))) or '-'
        return 'cnt=%s set=%s' % (cnt, st)

    def start(self):
        captured = {}

        from treadmill.dirwatch import dirwatch_base
        outer = self

        class _DW(dirwatch_base.DirWatcher):
            """The real DirWatcher (its `process_events` batching) fed from the harness' queue."""
            __slots__ = ()

            def __init__(self, _path):
                dirwatch_base.DirWatcher.__init__(self)
                captured['w'] = self

            def _add_dir(self, watch_dir):
                return 1

            def _remove_dir(self, watch_id):
                return None

            def _wait_for_events(self, timeout):
                return bool(outer.queue)

            def _read_events(self):
                evs, outer.queue = outer.queue, []
                return evs

            def wait_for_events(self, timeout=None):       # pylint: disable=unused-argument
                raise _WStop()
        # a new process: the kernel's set survives, the dictionary does not
        files = self._pt_files()
        ps = self._patches() + [mock.patch.object(self.fwmod.dirwatch, 'DirWatcher', _DW)]
        for p_ in ps:
            p_.start()
        try:
            try:
                self.fwmod._watcher(self.root, self.rules_dir, self.apps_dir,       # pylint: disable=protected-access
                                    os.path.join(self.root, 'watchdogs'))
            except _WStop:
                pass
        finally:
            for p_ in reversed(ps):
                p_.stop()
        self.watch = captured['w']
        self.handlers = (self.watch.on_created, self.watch.on_deleted)
        self.queue = []
        self.seen = set(files)
        self.seen_all = set(os.listdir(self.rules_dir))
        self.run.op('wprime %s' % (','.join(str(ip2n(files[n])) for n in sorted(files)) or '-'), self._obs())
        self.run.tags.add('fw-watcher-start')
        self._judge('start')

    def deliver(self):
        """Tell the watcher what changed in the rule directory (the engine does not record the order in which a
        finish unlinked its files: deletions first, then creations, each in name order).  The events go through
        the real `DirWatcher.process_events(max_events=5)`, one call per turn of the watcher's loop, with the
        handlers wrapped so that every call is one compared line."""
        if self.handlers is None:
            return
        dwe = self.fwmod.dirwatch.DirWatcherEvent
        files = self._pt_files()
        # every rule file is an event for the watcher (DNAT / SNAT files take their turn in the batches of five);
        # only the passthrough ones concern the set and the model
        allnow = set(os.listdir(self.rules_dir))
        gone = sorted(self.seen_all - allnow)
        new = sorted(allnow - self.seen_all)
        if not gone and not new:
            return
        ips = {}
        for n in gone:
            cr = self.rulefile.RuleMgr.get_rule(n)
            if cr is not None and type(cr[1]).__name__ == 'PassThroughRule':
                ips[n] = cr[1].src_ip
            self.seen.discard(n)
            self.seen_all.discard(n)
            self.queue.append((dwe.DELETED, os.path.join(self.rules_dir, n)))
        for n in new:
            if n in files:
                ips[n] = files[n]
                self.seen.add(n)
            self.seen_all.add(n)
            self.queue.append((dwe.CREATED, os.path.join(self.rules_dir, n)))
        if len(gone) + len(new) > 5:
            self.run.tags.add('fw-watcher-burst>5')
        real_created, real_deleted = self.handlers
        died = []

        def on_created(path):
            real_created(path)
            if os.path.basename(path) in ips:
                self.run.op('wcreated %d' % ip2n(ips[os.path.basename(path)]), self._obs())
                self.run.tags.add('fw-watcher-created')

        def on_deleted(path):
            try:
                real_deleted(path)
            except KeyError:
                self.run.op('wdeleted %d' % ip2n(ips.get(os.path.basename(path), '0.0.0.0')), 'KeyError')
                died.append(path)
                raise
            if os.path.basename(path) in ips:
                self.run.op('wdeleted %d' % ip2n(ips[os.path.basename(path)]), self._obs())
                self.run.tags.add('fw-watcher-deleted')
        self.watch.on_created, self.watch.on_deleted = on_created, on_deleted
        ps = self._patches()
        for p_ in ps:
            p_.start()
        try:
            turns = 0
            while (self.queue or self.watch.event_list) and turns < 50:
                turns += 1
                try:
                    self.watch.process_events(max_events=5)
                except KeyError:
                    self.hits.append(fw.Hit(clause='fw-watcher-died', call_site='sproc.firewall._watcher.on_deleted',
                                            detail='KeyError on the deletion of %s' % os.path.basename(died[-1] if died else '?')))
                    self.handlers = None
                    return
        finally:
            for p_ in reversed(ps):
                p_.stop()
            self.watch.on_created, self.watch.on_deleted = real_created, real_deleted
        self._judge('event')

    def _judge(self, when):
        """The property on the real objects: an address is in tm:passthroughs iff a rule file names it."""
        want = set(self._pt_files().values())
        have = set(self.env.ipsets.get(self.iptables.SET_PASSTHROUGHS, ()))
        if want != have:
            self.hits.append(fw.Hit(clause='passthrough-set', call_site='sproc.firewall._watcher',
                                    detail='after %s: rule files name %r, tm:passthroughs holds %r' % (
                                        when, sorted(want), sorted(have))))


def _reply_rewritten_atomically(env, bs, client, uniq, req_dir, reply):
    """The network service answers every request it still finds when it restarts (and whenever a request is
    modified): the real `ResourceService._on_created` rewrites reply.yml of a container that may be finishing
    right now.  Under a line tracer, at every line of `_base_service.py` the rewrite executes, the finishing
    side's read (the real `ResourceServiceClient.get`) must return the complete reply - an empty or partial
    one reads as "the network is already freed" and the clean-up is skipped."""
    import sys as _sys
    import yaml as _yaml

    class _Rs(bs.ResourceService):
        __slots__ = ()

        def __init__(self):                                 # pylint: disable=super-init-not-called
            pass

        def _run(self, impl, watchdog_lease):
            raise NotImplementedError

        def clt_update_request(self, req_id):
            raise NotImplementedError

        def status(self, timeout=30):
            raise NotImplementedError

    class _Impl(object):
        PAYLOAD_SCHEMA = ()

        @staticmethod
        def on_create_request(_rid, _data):
            return dict(reply)
    rs = _Rs()
    object.__setattr__(rs, '_rsrc_dir', os.path.dirname(req_dir))
    with open(os.path.join(req_dir, bs.REQ_FILE), 'w') as f:
        _yaml.safe_dump({'environment': 'dev'}, f)
    seen = []
    busy = [False]

    def local(frame, event, _arg):
        if event == 'line' and not busy[0]:
            busy[0] = True
            try:
                _sys.settrace(None)
                try:
                    got = client.get(uniq)
                except Exception as exc:        # pylint: disable=broad-except
                    got = repr(exc)
                seen.append((frame.f_lineno, got))
            finally:
                _sys.settrace(tracer)
                busy[0] = False
        return local

    def tracer(frame, event, _arg):
        if event == 'call' and frame.f_code.co_filename.endswith('_base_service.py') \
                and frame.f_code.co_name == '_on_created':
            return local
        return None
    old = _sys.gettrace()
    with mock.patch.object(bs.utils, 'validate', lambda *_a, **_k: None):
        _sys.settrace(tracer)
        try:
            rs._on_created(_Impl(), req_dir)        # pylint: disable=protected-access
        finally:
            _sys.settrace(old)
    env.stats_reply_traced = getattr(env, 'stats_reply_traced', 0) + 1
    for lineno, got in seen:
        if got != reply:
            env.reply_torn = 'while the service rewrote the reply of %s (line %d of _base_service.py) the ' \
                             'finishing side read %r instead of %r' % (uniq, lineno, got, reply)
            break


class _NetClient:
    def __init__(self, env, ext):
        self.env = env
        self.ext = ext
        self.prefer = 0

    def put(self, uniq, _req):
        if uniq in self.env.nets:
            return                 # a repeated request keeps its allocation
        used = {a['vip'] for a in self.env.nets.values()}
        for k in range(len(VIPS)):
            vip = VIPS[(self.prefer + k) % len(VIPS)]
            if vip not in used:
                break
        else:
            raise Exception('harness: out of VIPs')
        self.env.nets[uniq] = {'vip': vip, 'gateway': GATEWAY, 'veth': 'veth%d' % len(self.env.nets),
                               'external_ip': self.ext}

    def wait(self, uniq, timeout=None):
        if uniq in self.env.nets:
            return dict(self.env.nets[uniq])
        # shared network: nothing was requested; the container uses the host's address
        return {'vip': self.ext, 'gateway': GATEWAY, 'veth': 'none', 'external_ip': self.ext}

    def get(self, uniq):
        r = self.env.nets.get(uniq)
        self.env.net_get.append(None if r is None else (r['vip'], r['external_ip']))
        # through the REAL client (services._base_service.ResourceServiceClient.get / wait) on a request
        # directory holding the service's reply, so that its reading of reply.yml is part of what runs
        import io as _io
        import yaml as _yaml
        from treadmill.services import _base_service as bs
        cdir = self.env.client_dir
        svc = mock.Mock()
        svc.name = 'network'
        real = bs.ResourceServiceClient(svc, cdir)
        req = real._req_dirname(uniq)           # pylint: disable=protected-access
        shutil.rmtree(req, ignore_errors=True)
        if r is not None:
            os.makedirs(req)
            with open(os.path.join(req, bs.REP_FILE), 'w') as f:
                _yaml.safe_dump(dict(r), f)
        if r is not None:
            self.env.n_get = getattr(self.env, 'n_get', 0) + 1
            if self.env.n_get % 3 == 0:
                _reply_rewritten_atomically(self.env, bs, real, uniq, req, dict(r))
        if r is not None and getattr(self.env, 'reply_fault', False):
            # the reply is there but cannot be read this time (EIO): the finish attempt must fail - the network
            # is NOT "already freed" - and be retried
            self.env.reply_fault = False
            self.env.cut_hit = True
            real_open = _io.open

            def failing_open(path, *a, **kw):
                if str(path).endswith(bs.REP_FILE):
                    raise OSError(errno.EIO, 'harness: injected read error', path)
                return real_open(path, *a, **kw)
            with mock.patch.object(bs.io, 'open', failing_open):
                return real.get(uniq)
        return real.get(uniq)

    def delete(self, uniq):
        if not self.env.keep_alloc:
            self.env.nets.pop(uniq, None)


class _OsProxy:
    """`os` as `_run` sees it: `os.getpid()` is the pid of the container's `run` process."""

    def __init__(self, env):
        self._env = env

    def getpid(self):
        return self._env.pid

    def __getattr__(self, name):
        return getattr(os, name)


class _RecRules:
    """The real RuleMgr, with the order of calls recorded (set iteration order is the
    implementation's choice)."""

    def __init__(self, real, env):
        self._real = real
        self._env = env

    def create_rule(self, chain, rule, owner):
        self._env.rule_log.append(('c', chain, rule))
        return self._real.create_rule(chain=chain, rule=rule, owner=owner)

    def unlink_rule(self, chain, rule, owner):
        self._env.rule_log.append(('u', chain, rule))
        self._env.removal()
        return self._real.unlink_rule(chain=chain, rule=rule, owner=owner)

    def __getattr__(self, name):
        return getattr(self._real, name)


# --------------------------------------------------------------------------------------
# implementation runner + monitor
# --------------------------------------------------------------------------------------

def _truthy_vring(v):
    """Truthiness of `utils.to_obj(v)` as `if app.vring:` sees it (a dict becomes a namedtuple)."""
    if isinstance(v, dict):
        return len(v) > 0
    return bool(v)


def run_impl(case, pid):
    root = tempfile.mkdtemp(dir='/var/tmp', prefix='tmverif-net-')
    try:
        return _run_impl(case, root)
    finally:
        shutil.rmtree(root, ignore_errors=True)


def _run_impl(case, root):
    # pylint: disable=too-many-locals,too-many-statements,too-many-branches
    from treadmill import rulefile, endpoints as tm_endpoints, iptables, firewall, utils
    from treadmill import runtime as tm_runtime
    from treadmill.runtime.linux import _run, _finish

    run = fw.ImplRun()
    env = _Env(case)
    conts = case['containers']
    ext = case.get('ext', '10.1.1.1')

    env.client_dir = os.path.join(root, 'netclient')
    os.makedirs(env.client_dir)
    apps_dir = os.path.join(root, 'apps')
    rules_dir = os.path.join(root, 'rules')
    eps_dir = os.path.join(root, 'endpoints')
    os.makedirs(apps_dir)
    os.makedirs(rules_dir)
    tm_env = mock.Mock()
    tm_env.apps_dir = apps_dir
    tm_env.metrics_dir = os.path.join(root, 'metrics')
    real_rules = rulefile.RuleMgr(rules_dir, apps_dir)
    tm_env.rules = _RecRules(real_rules, env)
    class _CutEndpoints(tm_endpoints.EndpointsMgr):
        """The real EndpointsMgr; `unlink_all` is one of the removal calls a fault can hit."""
        __slots__ = ()

        def unlink_all(self, *a, **kw):
            env.removal()
            if not getattr(env, 'vanish', False):
                return super(_CutEndpoints, self).unlink_all(*a, **kw)
            # one of the listed specs is gone by the time it is looked at (reclaimed by the collector, or removed by
            # the finish of another container of the same instance): the sweep goes on with the others
            env.vanish = False
            real_glob = tm_endpoints.glob.glob

            owner = kw.get('owner', a[3] if len(a) > 3 else None)

            def glob_then_vanish(pattern):
                found = real_glob(pattern)
                # (one of the container's OWN specs: what belongs to others must stay)
                mine = [f for f in found if owner and os.path.basename(os.readlink(f)) == owner]
                if mine:
                    os.unlink(mine[0])
                    run.tags.add('spec-vanished-during-sweep')
                return found
            with mock.patch.object(tm_endpoints.glob, 'glob', glob_then_vanish):
                return super(_CutEndpoints, self).unlink_all(*a, **kw)
    tm_env.endpoints = _CutEndpoints(eps_dir)
    netclient = _NetClient(env, ext)
    tm_env.svc_network.make_client.return_value = netclient
    runtime_config = mock.Mock()
    runtime_config.host_mount_whitelist = []

    # ---- interning -------------------------------------------------------------------------
    names = {}

    def nid(s):
        if s not in names:
            names[s] = len(names) + 1
            run.op('name %d %s' % (names[s], s), 'ok')
        return names[s]

    def fake_ipset(*args, **_kw):
        a = list(args)
        if a and a[0] == '-exist':
            a = a[1:]
        if len(a) == 3 and a[0] == 'add':
            env.ipsets[a[1]].add(a[2])
        elif len(a) == 3 and a[0] == 'del':
            env.removal()
            env.ipsets[a[1]].discard(a[2])
        else:
            raise Exception('harness: unexpected ipset call %r' % (args,))

    # ---- observation -------------------------------------------------------------------------
    def listing(d):
        out = []
        for f in os.listdir(d):
            p = os.path.join(d, f)
            try:
                tgt = os.readlink(p)
                tgt = os.path.relpath(os.path.normpath(os.path.join(d, tgt)), apps_dir)
            except OSError:
                tgt = '<file>'
            out.append((f, tgt))
        return sorted(out)

    def snapshot():
        s = set()
        for f, t in listing(rules_dir):
            s.add(('R', f, t))
        for f, t in listing(eps_dir):
            s.add(('E', f, t))
        for k, v in env.ipsets.items():
            if k == iptables.SET_PASSTHROUGHS:
                continue        # maintained by the firewall watcher from the rule files: judged after it was told
            for e in v:
                s.add(('S', k, e))
        return frozenset(s)

    def show_state():
        def j(l):
            return '|'.join(sorted(l)) or '-'
        other = sorted(k for k, v in env.ipsets.items()
                       if v and k not in (iptables.SET_VRING_CONTAINERS, iptables.SET_INFRA_SVC,
                                          iptables.SET_PASSTHROUGHS))
        s = 'R=%s E=%s V=%s I=%s' % (
            j('%s>%s' % ft for ft in listing(rules_dir)), j('%s>%s' % ft for ft in listing(eps_dir)),
            j(env.ipsets.get(iptables.SET_VRING_CONTAINERS, ())), j(env.ipsets.get(iptables.SET_INFRA_SVC, ())))
        if other:
            s += ' OTHERSETS=%s' % ','.join(other)      # the model knows two sets only
        return s

    def show_live():
        return ','.join(str(nid(u)) for u in env.nets) or '-'

    def show_bound():
        return 'btcp=%s budp=%s' % (','.join(str(p) for p in sorted(env.bound['tcp'])) or '-',
                                    ','.join(str(p) for p in sorted(env.bound['udp'])) or '-')

    # ---- manifest encoding --------------------------------------------------------------------
    def tokens(man, cpid, order):
        """Driver tokens of a manifest dict as the implementation sees it."""
        net = man['network']
        eps = []
        for ep in man['endpoints']:
            eps.append('%d:%s:%d:%d:%d' % (nid(ep['name']), ep['proto'][0], int(ep['port']), int(ep['real_port']),
                                           1 if ep.get('type') == 'infra' else 0))
        eph = man['ephemeral_ports']
        if 'passthrough' in man:
            hosts = [ip2n(resolve(h)) for h in man['passthrough']]
            pth = ','.join(str(x) for x in hosts) or '-'
            dedup = sorted(set(hosts))
            full = [x for x in order if x in dedup] + [x for x in dedup if x not in order]
            pt = ','.join(str(x) for x in full) or '-'
        else:
            pth = pt = 'none'
        return ('o=%d a=%d pid=%d vip=%d ext=%d sh=%d vr=%d eps=%s tcp=%s udp=%s pt=%s pth=%s' % (
            nid(unique_name_of(man)), nid(man['name']), cpid, ip2n(net['vip']), ip2n(net['external_ip']),
            1 if man['shared_network'] else 0, 1 if _truthy_vring(man.get('vring')) else 0,
            ','.join(eps) or '-', ','.join(str(int(p)) for p in eph['tcp']) or '-',
            ','.join(str(int(p)) for p in eph['udp']) or '-', pt, pth))

    def unique_name_of(man):
        return unique_name({'name': man['name'], 'uniqueid': man['uniqueid']})

    def run_manifest(spec):
        """The dict handed to `run` (what the node's manifest loader produces, reduced to the keys
        `run`/`finish` read)."""
        app, _, task = spec['name'].partition('#')
        man = {
            'type': 'native', 'name': spec['name'], 'app': app, 'task': task, 'uniqueid': spec['uniqueid'],
            'proid': spec['name'].split('.')[0], 'environment': spec['env'],
            'memory': '100M', 'cpu': '10%', 'disk': '1G', 'services': [], 'system_services': [],
            'shared_network': spec['shared_network'], 'shared_ip': spec['shared_ip'],
            'ephemeral_ports': dict(spec['eph']),
            'endpoints': [dict((k, v) for k, v in ep.items()) for ep in spec['endpoints']],
            'vring': copy.deepcopy(spec['vring']),
        }
        if 'passthrough' in spec:
            man['passthrough'] = list(spec['passthrough'])
        if spec.get('pad'):
            # (side stream) a very large manifest: what `run` saves for `finish` is over a megabyte
            man['environ'] = [{'name': 'PAD', 'value': 'x' * spec['pad']}]
        return man

    def pass_order(kind):
        return [ip2n(r.src_ip) for (k, ch, r) in env.rule_log
                if k == kind and ch == iptables.PREROUTING_PASSTHROUGH and isinstance(r, firewall.PassThroughRule)]

    # ---- monitor bookkeeping -------------------------------------------------------------------
    track = {}        # container index -> {'state': 'started'|'finished', 'base': frozenset}
    cur_vip = {}      # container index -> vip of its current / last allocation
    hits = run.hits

    def belongs(entry, i):
        if entry[0] in ('R', 'E'):
            return entry[2] == unique_name(conts[i])
        ip = entry[2].split(',')[0]
        return cur_vip.get(i) is not None and ip == cur_vip[i]

    def account(i, site, before, after):
        """Monitor: what op `site` of container `i` did to the host (i = None: planted by others)."""
        added = after - before
        removed = before - after
        for j, t in track.items():
            if j != i and t['state'] == 'started':
                t['base'] = (t['base'] | added) - removed
            if t['state'] == 'finished' and i is None:
                # something of j's own re-created by others after j finished: a later finish may remove it
                t['replanted'] = t['replanted'] | frozenset(e for e in added if belongs(e, j))
        if i is None:
            return
        # never removes an entry belonging to another container
        for e in sorted(removed):
            if not belongs(e, i):
                hits.append(fw.Hit(clause='foreign-removed', call_site=site,
                                   detail='%s removed %r' % (unique_name(conts[i]), e)))

    # ---- ops -----------------------------------------------------------------------------------------
    n_err = 0
    overlap = False
    repeated = False
    vip_hist = collections.defaultdict(set)
    manifests = {}    # container index -> manifest dict as saved (direct mode: as built)

    def private_live():
        return [j for j, t in track.items() if t['state'] == 'started' and not conts[j]['shared_network']]

    def do_start(i):
        nonlocal n_err, overlap
        spec = conts[i]
        uniq = unique_name(spec)
        cdir = os.path.join(apps_dir, uniq)
        os.makedirs(os.path.join(cdir, 'data'), exist_ok=True)
        env.actor = i
        env.tried = {'tcp': [], 'udp': []}
        env.closed = {'tcp': [], 'udp': []}
        env.samples = 0
        env.collide = spec.get('collide', 0)
        env.rule_log = []
        env.pid = spec['pid']
        netclient.prefer = spec.get('vipidx', 0)
        before = snapshot()
        res = 'ok'
        if not spec['shared_network'] and private_live() and i not in private_live():
            overlap = True
        if spec['mode'] == 'run':
            man = run_manifest(spec)
            bound_before = {k: set(v) for k, v in env.bound.items()}
            try:
                _run.run(tm_env, runtime_config, os.path.join(cdir, 'data'), man)
            except OSError as err:
                if err.errno != errno.EEXIST:
                    raise
                res = 'err'          # create_rule / create_spec refused an existing name
            # ---- the port allocation (done by run() before anything is registered), as one driver line
            eps_req = ','.join('%d:%s:%d:%d' % (nid(ep['name']), ep['proto'][0], int(sp['port']),
                                                1 if ep.get('type') == 'infra' else 0)
                               for ep, sp in zip(man['endpoints'], spec['endpoints'])) or '-'
            eps_got = ','.join('%d:%s:%d:%d' % (nid(ep['name']), ep['proto'], int(ep['port']), int(ep['real_port']))
                               for ep in man['endpoints']) or '-'
            # sockets closed by run() itself (shared network) are reported by a release line below
            bound_now = {k: set(v) | set(env.closed[k]) for k, v in env.bound.items()}
            line = 'alloc env=%s eps=%s ntcp=%d nudp=%d ttcp=%s tudp=%s' % (
                spec['env'], eps_req, spec['eph']['tcp'], spec['eph']['udp'],
                ','.join(str(p) for p in env.tried['tcp']) or '-',
                ','.join(str(p) for p in env.tried['udp']) or '-')
            obs = 'res=ok pool=1 eps=%s tcp=%s udp=%s btcp=%s budp=%s' % (
                eps_got, ','.join(str(p) for p in man['ephemeral_ports']['tcp']) or '-',
                ','.join(str(p) for p in man['ephemeral_ports']['udp']) or '-',
                ','.join(str(p) for p in sorted(bound_now['tcp'])) or '-',
                ','.join(str(p) for p in sorted(bound_now['udp'])) or '-')
            run.op(line, obs)
            if env.closed['tcp'] or env.closed['udp']:
                run.op('release tcp=%s udp=%s' % (','.join(str(p) for p in env.closed['tcp']) or '-',
                                                  ','.join(str(p) for p in env.closed['udp']) or '-'),
                       show_bound())
            if any(len(env.tried[k]) > len(bound_now[k] - bound_before[k]) for k in ('tcp', 'udp')):
                run.tags.add('port-in-use')
            manifests[i] = man
        else:
            man = run_manifest(spec)
            man['ephemeral_ports'] = {'tcp': list(spec['eph']['tcp']), 'udp': list(spec['eph']['udp'])}
            if not spec['shared_network']:
                netclient.put(uniq, {})
            man['network'] = netclient.wait(uniq)
            manifests[i] = man
            try:
                # what `run` does after `save_app`
                app = utils.to_obj(man)
                if not app.shared_network:
                    _run._unshare_network(tm_env, os.path.join(cdir, 'data'), app)
            except OSError as err:
                if err.errno != errno.EEXIST:
                    raise
                res = 'err'
        if res == 'err':
            n_err += 1
        if not spec['shared_network']:
            cur_vip[i] = man['network']['vip']
            vip_hist[man['network']['vip']].add(i)
        after = snapshot()
        if i not in track or track[i]['state'] != 'started':
            track[i] = {'state': 'started', 'base': before, 'created': frozenset()}
        track[i]['created'] = track[i]['created'] | (after - before)
        account(i, '_unshare_network', before, after)
        line = 'start ' + tokens(man, spec['pid'], pass_order('c'))
        run.op(line, 'res=%s ptok=1 live=%s %s' % (res, show_live(), show_state()))

    def do_finish(i, keep, cut=None):
        nonlocal repeated
        spec = conts[i]
        uniq = unique_name(spec)
        cdir = os.path.join(apps_dir, uniq)
        env.actor = i
        env.rule_log = []
        env.net_get = []
        env.keep_alloc = keep
        if cut == 'reply':
            # the network service's reply cannot be read when the clean-up starts: nothing was removed yet, which is
            # a cut before the first removal
            cut = 0
            env.cut = None
            env.reply_fault = True
            env.cut_hit = False
            reply_cut = True
        else:
            reply_cut = False
        if cut == 'vanish':
            # for the network this is a complete finish: every spec of the container is gone at the end
            cut = None
            env.vanish = True
        late = cut == 'late'
        if late:
            # a LATER step of the finish fails (the cgroup cannot be released yet: EBUSY): by then the network part
            # is done - for the network this is a complete finish that happens to raise
            cut = None
            tm_env.svc_cgroup.make_client.return_value.delete.side_effect = OSError(errno.EBUSY, 'cgroup busy')
            run.tags.add('late-fault')
        env.dns_fail = cut == 'dns'        # the resolver fails once while the passthrough hosts are looked up:
        if cut == 'dns':                   # nothing was removed yet, which is a cut before the first removal
            cut = 0
            env.cut = None
        elif not reply_cut:
            env.cut = cut
        if not reply_cut:
            env.cut_hit = False
        before = snapshot()
        man = manifests.get(i)
        raised = None
        try:
            if spec['mode'] == 'run':
                # through the real RuntimeBase.finish (the caller of `_finish`): it removes the container directory -
                # and with it the saved state a repeated finish needs - only after `_finish` returned
                import types as _types
                from treadmill.runtime import runtime_base as _rb
                removed_ = []
                real_rmtree_ = _rb.shutil.rmtree
                stub_ = _types.SimpleNamespace(_service=_types.SimpleNamespace(directory=cdir),
                                               _finish=lambda: _finish.finish(tm_env, cdir))
                with mock.patch.object(_rb.supervisor, 'ensure_not_supervised', lambda _d: None), \
                        mock.patch.object(_rb.shutil, 'rmtree',
                                          lambda d_, *a_, **k_: removed_.append(d_) if d_ == cdir
                                          else real_rmtree_(d_, *a_, **k_)):
                    try:
                        _rb.RuntimeBase.finish(stub_)
                    except BaseException:
                        if removed_:
                            hits.append(fw.Hit(clause='state-removed-by-failed-finish', call_site='RuntimeBase.finish',
                                               detail='%s: the finish raised, yet the container directory (state.json, '
                                                      'resources/) was removed: the finish cannot be repeated' % (uniq,)))
                        raise
            elif man is not None:
                # what `_cleanup` does for the network part
                app = utils.to_obj(man)
                if hasattr(app, 'shared_network') and not app.shared_network:
                    _finish._cleanup_network(tm_env, os.path.join(cdir, 'data'), app, netclient)
        except (OSError, KeyError, ValueError, TypeError, AttributeError, NameError) as err:
            raised = '%s:%s' % (type(err).__name__, getattr(err, 'errno', ''))
        finally:
            env.reply_fault = False
            env.keep_alloc = False
            env.cut = None
            env.dns_fail = False
            tm_env.svc_cgroup.make_client.return_value.delete.side_effect = None
            env.vanish = False
        if late and raised == 'OSError:%d' % errno.EBUSY:
            raised = None               # the injected failure itself
        after = snapshot()
        account(i, '_cleanup_network', before, after)
        t = track.get(i)
        if cut is not None and not env.cut_hit:
            run.tags.add('cut-beyond-end')      # fewer removal calls than the budget: this was a complete finish
        if cut is not None and env.cut_hit:
            # a fault at the (cut+1)-th removal call.  Nothing is expected of the state yet: the container stays
            # 'started' and the next complete finish has to remove everything; what belongs to others is untouched
            run.tags.add('cut-hit')
            if raised is None and t is not None and t['state'] == 'started' and (t['created'] & after):
                # the finish returned normally although a step failed and entries of the container are still
                # registered: its caller takes the container for finished and nothing will remove them
                hits.append(fw.Hit(clause='finish-succeeded-with-leftovers', call_site='_cleanup_network(interrupted)',
                                   detail='%s: %r' % (uniq, sorted(t['created'] & after)[:4])))
            if t is not None:
                others_b = frozenset(e for e in before if not belongs(e, i))
                others_a = frozenset(e for e in after if not belongs(e, i))
                if others_a != others_b:
                    hits.append(fw.Hit(clause='not-restored', call_site='_cleanup_network(interrupted)',
                                       detail='%s extra=%r missing=%r' % (uniq, sorted(others_a - others_b)[:4],
                                                                          sorted(others_b - others_a)[:4])))
            repeated = True
            if man is None:
                return
            an = env.net_get[0] if env.net_get else None
            line = ('cutfinish %d ' % cut) + tokens(man, spec['pid'], pass_order('u'))
            # (the injected fault itself is expected to surface; any other exception is reported)
            other = raised is not None and not (env.cut_hit and raised in ('OSError:%d' % errno.EIO, 'gaierror:-2', 'UnboundLocalError:'))
            run.op(line, '%san=%s ptok=1 live=%s %s' % ('RAISED=%s ' % raised if other else '',
                                                       'none' if an is None else '%s:%s' % an, show_live(), show_state()))
            return
        if raised is not None and t is not None and t['state'] != 'started':
            # "finishing is safe to repeat": a repeated finish must not blow up either
            hits.append(fw.Hit(clause='not-idempotent', call_site='_cleanup_network',
                               detail='%s repeated finish raised %s' % (uniq, raised)))
        if t is not None and t['state'] == 'started':
            # first finish after a start: everything the start(s) registered is gone ...
            leaked = sorted(t['created'] & after)
            if leaked:
                hits.append(fw.Hit(clause='leak', call_site='_cleanup_network',
                                   detail='%s left behind %r' % (uniq, leaked[:6])))
            # ... and whatever belongs to others is as it was before the start
            exp_others = frozenset(e for e in t['base'] if not belongs(e, i))
            now_others = frozenset(e for e in after if not belongs(e, i))
            if now_others != exp_others:
                hits.append(fw.Hit(clause='not-restored', call_site='_cleanup_network',
                                   detail='%s extra=%r missing=%r' % (uniq, sorted(now_others - exp_others)[:4],
                                                                      sorted(exp_others - now_others)[:4])))
            t['state'] = 'finished'
            t['replanted'] = frozenset()
        else:
            # finishing again (or finishing what never started) changes nothing
            if t is not None:
                repeated = True
            replanted = t['replanted'] if t is not None else frozenset()
            if (after - before) or ((before - after) - replanted):
                hits.append(fw.Hit(clause='not-idempotent', call_site='_cleanup_network',
                                   detail='%s added=%r removed=%r' % (uniq, sorted(after - before)[:4],
                                                                      sorted((before - after) - replanted)[:4])))
            if t is not None:
                t['replanted'] = replanted - (before - after)
        if keep:
            repeated = True
        if man is None:
            return            # nothing was ever saved for this container: `finish` had nothing to load
        if getattr(env, 'reply_torn', None):
            hits.append(fw.Hit(clause='reply-read-torn', call_site='ResourceService._on_created', detail=env.reply_torn))
            env.reply_torn = None
        if getattr(env, 'stats_reply_traced', 0):
            run.tags.add('reply-rewrite-traced')
        an = env.net_get[0] if env.net_get else None
        line = ('refinish ' if keep else 'finish ') + tokens(man, spec['pid'], pass_order('u'))
        run.op(line, '%san=%s ptok=1 live=%s %s' % ('' if raised is None else 'RAISED=%s ' % raised,
                                                   'none' if an is None else '%s:%s' % an, show_live(), show_state()))

    def do_exit(i):
        ports = {'tcp': [], 'udp': []}
        for kind in ('tcp', 'udp'):
            for p, who in sorted(env.bound[kind].items()):
                if who == i:
                    ports[kind].append(p)
                    del env.bound[kind][p]
        if ports['tcp'] or ports['udp']:
            run.op('release tcp=%s udp=%s' % (','.join(str(p) for p in ports['tcp']) or '-',
                                              ','.join(str(p) for p in ports['udp']) or '-'), show_bound())

    def peek_vip(i):
        uniq = unique_name(conts[i])
        if uniq in env.nets:
            return env.nets[uniq]['vip']
        used = {a['vip'] for a in env.nets.values()}
        for k in range(len(VIPS)):
            vip = VIPS[(conts[i].get('vipidx', 0) + k) % len(VIPS)]
            if vip not in used:
                return vip
        return VIPS[0]

    def do_plant(kind, i, j, ownerkind):
        spec = conts[i]
        vip = peek_vip(i)
        owner = {'foreign': FOREIGN, 'own': unique_name(spec), 'appname': spec['name'],
                 'other': unique_name(conts[(i + 1) % len(conts)]) if len(conts) > 1 else FOREIGN}[ownerkind]
        man = manifests.get(i)
        if man is not None:
            eps = man['endpoints']
            eph = man['ephemeral_ports']
        elif spec['mode'] == 'direct':
            eps = spec['endpoints']
            eph = spec['eph']
        else:
            eps = [dict(ep, real_port=40000 + k, port=ep['port'] or 40000 + k) for k, ep in enumerate(spec['endpoints'])]
            eph = {'tcp': [41000 + k for k in range(spec['eph']['tcp'])], 'udp': [41000 + k for k in range(spec['eph']['udp'])]}
        ep = eps[j % len(eps)] if eps else {'name': 'e0', 'proto': 'tcp', 'port': 80, 'real_port': 5000}
        ephp = (eph['tcp'] + eph['udp'] + [5001])[j % (len(eph['tcp']) + len(eph['udp']) + 1)]
        ephproto = 'tcp' if j % (len(eph['tcp']) + len(eph['udp']) + 1) < len(eph['tcp']) else 'udp'
        before = snapshot()
        res = 'ok'
        try:
            if kind == 'dnat':
                rule = firewall.DNATRule(proto=ep['proto'], dst_ip=ext, dst_port=ep['real_port'], new_ip=vip, new_port=ep['port'])
                line = 'plantrule d:d:%s:%d:%d:%d:%d %d' % (ep['proto'][0], ip2n(ext), ep['real_port'], ip2n(vip), ep['port'], nid(owner))
                real_rules.create_rule(chain=iptables.PREROUTING_DNAT, rule=rule, owner=owner)
            elif kind == 'snat':
                rule = firewall.SNATRule(proto=ep['proto'], src_ip=vip, src_port=ep['port'], new_ip=ext, new_port=ep['real_port'])
                line = 'plantrule s:s:%s:%d:%d:%d:%d %d' % (ep['proto'][0], ip2n(vip), ep['port'], ip2n(ext), ep['real_port'], nid(owner))
                real_rules.create_rule(chain=iptables.POSTROUTING_SNAT, rule=rule, owner=owner)
            elif kind == 'ephdnat':
                rule = firewall.DNATRule(proto=ephproto, dst_ip=ext, dst_port=ephp, new_ip=vip, new_port=ephp)
                line = 'plantrule d:d:%s:%d:%d:%d:%d %d' % (ephproto[0], ip2n(ext), ephp, ip2n(vip), ephp, nid(owner))
                real_rules.create_rule(chain=iptables.PREROUTING_DNAT, rule=rule, owner=owner)
            elif kind == 'pass':
                src = '172.16.0.%d' % (j % HOSTIPS + 1)
                rule = firewall.PassThroughRule(src_ip=src, dst_ip=vip)
                line = 'plantrule p:p:%d:%d %d' % (ip2n(src), ip2n(vip), nid(owner))
                real_rules.create_rule(chain=iptables.PREROUTING_PASSTHROUGH, rule=rule, owner=owner)
            elif kind == 'spec':
                line = 'plantspec %d %s %d %d %d %d %d' % (nid(spec['name']), ep['proto'][0], nid(ep['name']),
                                                       ep['real_port'], spec['pid'], ep['port'], nid(owner))
                tm_env.endpoints.create_spec(appname=spec['name'], endpoint=ep['name'], proto=ep['proto'],
                                             real_port=ep['real_port'], pid=str(spec['pid']), port=ep['port'],
                                             owner=os.path.join(apps_dir, owner))
            elif kind == 'vring':
                pvip = vip if ownerkind == 'own' else '192.168.9.%d' % (j + 1)
                line = 'plantset v %d' % ip2n(pvip)
                iptables.add_ip_set(iptables.SET_VRING_CONTAINERS, pvip)
            else:
                pvip = vip if ownerkind == 'own' else '192.168.9.%d' % (j + 1)
                proto, port = (ep['proto'], ep['port']) if kind == 'infra' else (ephproto, ephp)
                line = 'plantset i %d %s %d' % (ip2n(pvip), proto[0], port)
                iptables.add_ip_set(iptables.SET_INFRA_SVC, '%s,%s:%d' % (pvip, proto, port))
        except OSError as err:
            if err.errno != errno.EEXIST:
                raise
            res = 'err'
        after = snapshot()
        account(None, 'plant', before, after)
        if line.startswith('plantset'):
            run.op(line, show_state())
        else:
            run.op(line, 'res=%s %s' % (res, show_state()))

    def do_bind(proto, pool, off):
        lo = tm_runtime.PROD_PORT_LOW if pool == 'prod' else tm_runtime.NONPROD_PORT_LOW
        port = lo + off % tm_runtime.PORT_SPAN
        if port in env.bound[proto]:
            return
        env.bound[proto][port] = 'other'
        run.op('bind %s %d' % (proto[0], port), show_bound())

    patches = [
        mock.patch('treadmill.iptables._ipset', fake_ipset),
        mock.patch('treadmill.iptables.flush_cnt_conntrack_table', mock.Mock()),
        mock.patch('treadmill.newnet.create_newnet', mock.Mock()),
        mock.patch('treadmill.plugin_manager.load', mock.Mock()),
        mock.patch('treadmill.plugin_manager.load_all', mock.Mock(return_value=[])),
        mock.patch('treadmill.runtime.linux._run._create_root_dir', mock.Mock(return_value='/nonexistent')),
        mock.patch('treadmill.runtime.linux._run._apply_cgroup_limits', mock.Mock()),
        mock.patch('treadmill.runtime.linux.image.get_image', mock.Mock()),
        mock.patch('treadmill.fs.linux.cleanup_mounts', mock.Mock()),
        mock.patch('treadmill.subproc.exec_pid1', mock.Mock()),
        mock.patch('treadmill.rrdutils.flush_noexc', mock.Mock()),
        mock.patch('treadmill.runtime.linux._finish._copy_metrics', mock.Mock()),
        mock.patch('treadmill.runtime.archive_logs', mock.Mock()),
        mock.patch('treadmill.runtime.socket', _make_socket_module(env)),
        mock.patch('treadmill.runtime.random', _FakeRandom(env)),
        mock.patch('socket.gethostbyname', lambda host: _resolve_or_fail(env, host)),
        mock.patch('treadmill.runtime.linux._run.os', _OsProxy(env)),
    ]
    for p in patches:
        p.start()
    fwatch = _FwWatcher(env, run, root, rules_dir, apps_dir, hits)
    wr = random.Random(repr((case.get('ext'), len(case['ops']), len(conts))))     # side stream: watcher restarts
    try:
        fwatch.start()
        for op in case['ops']:
            k = op[0]
            if wr.random() < 0.15:
                # the firewall watcher process restarts (initialises its set, primes itself from the directory);
                # half of the time it was already down while the last operation changed the directory
                if wr.random() < 0.5:
                    fwatch.deliver()
                else:
                    run.tags.add('fw-watcher-missed-events')
                fwatch.start()
            elif wr.random() < 0.7:
                fwatch.deliver()
            # (else: the watcher is busy - garbage collection, heartbeat - and the events pile up)
            if k == 'start':
                do_start(op[1])
            elif k == 'finish':
                do_finish(op[1], False)
            elif k == 'refinish':
                do_finish(op[1], True)
            elif k == 'cutfinish':
                do_finish(op[1], False, op[2])
            elif k == 'exit':
                do_exit(op[1])
            elif k == 'plant':
                do_plant(op[1], op[2], op[3], op[4])
            elif k == 'bind':
                do_bind(op[1], op[2], op[3])
        fwatch.deliver()
    finally:
        for p in reversed(patches):
            p.stop()

    # ---- tags / non-triviality ---------------------------------------------------------------------
    started = [i for i in track]
    run.tags.add('containers=%d' % len(conts))
    for i in started:
        s = conts[i]
        run.tags.add('mode:' + s['mode'])
        if s['shared_network']:
            run.tags.add('shared-network')
        man = manifests.get(i) or {}
        if _truthy_vring(s['vring']):
            run.tags.add('vring')
        if any(ep.get('type') == 'infra' for ep in s['endpoints']):
            run.tags.add('infra')
        if s['endpoints']:
            run.tags.add('endpoints')
        if man.get('ephemeral_ports', {}).get('tcp') or man.get('ephemeral_ports', {}).get('udp'):
            run.tags.add('ephemeral')
        if s.get('passthrough'):
            run.tags.add('passthrough')
            if len({resolve(h) for h in s['passthrough']}) < len(s['passthrough']):
                run.tags.add('passthrough-dup')
    if n_err:
        run.tags.add('start-raised')
    if overlap:
        run.tags.add('overlap')
    if repeated:
        run.tags.add('finish-repeated')
    if any(len(v) > 1 for v in vip_hist.values()):
        run.tags.add('vip-reuse')
    if len({conts[i]['name'] for i in started}) < len(started):
        run.tags.add('same-instance')
    if any(o[0] == 'plant' for o in case['ops']):
        run.tags.add('planted')

    def rich(i):
        s = conts[i]
        man = manifests.get(i) or {}
        eph = man.get('ephemeral_ports', {})
        return (not s['shared_network'] and s['endpoints'] and
                (any(ep.get('type') == 'infra' for ep in s['endpoints']) or eph.get('tcp') or eph.get('udp') or
                 s.get('passthrough') or _truthy_vring(s['vring'])))
    run.nontrivial = bool(overlap and repeated and any(rich(i) for i in started))
    return run
