"""Shared framework for the /verif checks (see DESIGN.md §2).

Run with /venv/bin/python; PYTHONPATH is set up by /verif/check.
"""
import fcntl
import logging
import hashlib
import json
import os
import random
import re
import subprocess
import sys
import time

VERIF = os.path.dirname(os.path.dirname(os.path.abspath(__file__)))
REPO = os.environ.get('TMVERIF_REPO', '/repo')
REPO_PY = os.path.join(REPO, 'lib', 'python')
LEAN_DIR = os.path.join(VERIF, 'lean')
# mutation-testing runs (TMVERIF_REPO set by tools/seed_run.py) must not overwrite the evidence of the real tree
EVIDENCE_DIR = os.environ.get('TMVERIF_EVIDENCE_DIR') or os.path.join(VERIF, 'evidence')
REPLAY_DIR = os.environ.get('TMVERIF_REPLAY_DIR') or os.path.join(VERIF, 'replays')
CORPUS_DIR = os.path.join(VERIF, 'corpus')
REGISTRY = os.path.join(VERIF, 'props_registry.json')
KNOWN = os.path.join(VERIF, 'known_findings.json')

ALLOWED_AXIOMS = {'propext', 'Classical.choice', 'Quot.sound'}
FORBIDDEN = re.compile(
    r'\bsorry\b|\badmit\b|^\s*axiom\s|native_decide|bv_decide|implemented_by|\bunsafe\s|maxHeartbeats\s+0\b',
    re.M)


logging.disable(logging.CRITICAL)
import warnings  # noqa: E402
warnings.filterwarnings('ignore')


class InfraError(Exception):
    """Infrastructure problem (exit 2, never a violation)."""


def log(*a):
    print(*a, file=sys.stderr, flush=True)


# --------------------------------------------------------------------------------------
# registry / known findings
# --------------------------------------------------------------------------------------

def load_registry():
    """props_registry.d/<PID>.json, one file per property (conflict-free editing)."""
    reg = {}
    d = os.path.join(VERIF, 'props_registry.d')
    for fn in sorted(os.listdir(d)):
        if fn.endswith('.json'):
            with open(os.path.join(d, fn)) as f:
                reg[fn[:-5]] = json.load(f)
    return reg


def load_known():
    if not os.path.exists(KNOWN):
        return {'findings': [], 'fixed': []}
    with open(KNOWN) as f:
        return json.load(f)


# --------------------------------------------------------------------------------------
# Lean: build, audit, driver
# --------------------------------------------------------------------------------------

class _Lock:
    def __init__(self, path):
        self.path = path

    def __enter__(self):
        self.f = open(self.path, 'w')
        fcntl.flock(self.f, fcntl.LOCK_EX)
        return self

    def __exit__(self, *a):
        fcntl.flock(self.f, fcntl.LOCK_UN)
        self.f.close()


def _lake_env():
    env = dict(os.environ)
    env.pop('LEAN_PATH', None)
    return env


def lean_build(targets, timeout=3000):
    """`lake build <targets>`; returns dict(ok, failed_modules, errors, log)."""
    t0 = time.time()
    os.makedirs(os.path.join(LEAN_DIR, '.lake'), exist_ok=True)
    with _Lock(os.path.join(LEAN_DIR, '.lake', 'tmverif.build.lock')):
        try:
            p = subprocess.run(['lake', 'build'] + list(targets), cwd=LEAN_DIR, env=_lake_env(),
                               stdout=subprocess.PIPE, stderr=subprocess.STDOUT, timeout=timeout,
                               universal_newlines=True)
        except subprocess.TimeoutExpired:
            raise InfraError('lake build timed out')
        except OSError as exc:
            raise InfraError('lake not runnable: %r' % exc)
    out = p.stdout
    errors = []
    for m in re.finditer(r'^error: ([^\n:]+\.lean):(\d+):(\d+): (.*)$', out, re.M):
        errors.append({'file': m.group(1), 'line': int(m.group(2)), 'msg': m.group(4)})
    failed = sorted(set(re.findall(r'^✖ \[\d+/\d+\] Building ([\w.]+)', out, re.M)) |
                    set(re.findall(r'^- ([\w.]+)$', out, re.M)))
    return {'ok': p.returncode == 0, 'failed_modules': failed, 'errors': errors,
            'log': out[-6000:], 'wall_s': time.time() - t0}


def _decl_at(path, line):
    """Name of the theorem/def enclosing `line` of a Lean file (best effort)."""
    try:
        src = open(os.path.join(LEAN_DIR, path) if not os.path.isabs(path) else path).read().split('\n')
    except OSError:
        return None
    name = None
    for i, l in enumerate(src[:line], 1):
        m = re.match(r'\s*(?:private\s+|protected\s+)?(?:theorem|lemma|def|example|instance|abbrev)\s+([\w.\']+)?', l)
        if m:
            name = m.group(1) or 'example@%d' % i
    return name


def broken_decls(build):
    out = []
    for e in build['errors']:
        d = _decl_at(e['file'], e['line'])
        out.append({'file': e['file'], 'line': e['line'], 'decl': d, 'msg': e['msg'][:300]})
    return out


def lean_audit(pid, module, theorems, timeout=900):
    """`#print axioms` for each theorem; returns dict name -> list of axioms | None (missing)."""
    adir = os.path.join(LEAN_DIR, '.lake', 'audit')
    os.makedirs(adir, exist_ok=True)
    path = os.path.join(adir, 'Audit_%s.lean' % pid)
    with open(path, 'w') as f:
        mods = module if isinstance(module, list) else [module]
        for m in mods:
            f.write('import %s\n' % m)
        for t in theorems:
            f.write('#print axioms %s\n' % t)
    try:
        p = subprocess.run(['lake', 'env', 'lean', path], cwd=LEAN_DIR, env=_lake_env(),
                           stdout=subprocess.PIPE, stderr=subprocess.STDOUT, timeout=timeout,
                           universal_newlines=True)
    except subprocess.TimeoutExpired:
        raise InfraError('audit timed out')
    res = {t: None for t in theorems}
    text = p.stdout
    # "'name' depends on axioms: [a, b]" (may wrap lines) or "'name' does not depend on any axioms"
    for m in re.finditer(r"'([^']+)' depends on axioms:\s*\[([^\]]*)\]", text, re.S):
        res[m.group(1)] = [a.strip() for a in m.group(2).replace('\n', ' ').split(',') if a.strip()]
    for m in re.finditer(r"'([^']+)' does not depend on any axioms", text):
        res[m.group(1)] = []
    return res, text


def _module_path(mod):
    return os.path.join(LEAN_DIR, *mod.split('.')) + '.lean'


def import_closure(modules, extra_files=()):
    """Files of the TmVerif modules transitively imported by `modules` (+ extra files)."""
    seen = {}
    todo = [(_module_path(m)) for m in modules] + list(extra_files)
    while todo:
        path = todo.pop()
        if path in seen or not os.path.exists(path):
            continue
        src = open(path).read()
        seen[path] = src
        for m in re.findall(r'^import\s+(TmVerif[\w.]*)', src, re.M):
            todo.append(_module_path(m))
    return seen


def forbidden_grep(modules=None, extra_files=()):
    """Scan the Lean files a property depends on (import closure of its modules and its driver;
    all of lean/TmVerif and lean/drivers when `modules` is None), comments stripped, for
    forbidden tokens."""
    if modules is None:
        files = {}
        for root in ('TmVerif', 'drivers'):
            for dp, _dn, fns in os.walk(os.path.join(LEAN_DIR, root)):
                for fn in fns:
                    if fn.endswith('.lean'):
                        files[os.path.join(dp, fn)] = open(os.path.join(dp, fn)).read()
    else:
        files = import_closure(modules, extra_files)
    hits = []
    for p, src in sorted(files.items()):
        src = re.sub(r'/-.*?-/', lambda m: '\n' * m.group(0).count('\n'), src, flags=re.S)
        src = re.sub(r'--[^\n]*', '', src)
        for m in FORBIDDEN.finditer(src):
            hits.append('%s:%d:%s' % (os.path.relpath(p, LEAN_DIR),
                                      src.count('\n', 0, m.start()) + 1, m.group(0).strip()))
    return hits


def run_driver(driver, lines, timeout=1800):
    """Pipe `lines` to `lake env lean --run drivers/<driver>.lean`; one output line per input."""
    data = '\n'.join(lines) + '\n'
    try:
        p = subprocess.run(['lake', 'env', 'lean', '--run', os.path.join('drivers', driver + '.lean')],
                           cwd=LEAN_DIR, env=_lake_env(), input=data, stdout=subprocess.PIPE,
                           stderr=subprocess.PIPE, timeout=timeout, universal_newlines=True)
    except subprocess.TimeoutExpired:
        raise InfraError('driver %s timed out' % driver)
    out = p.stdout.split('\n')
    if out and out[-1] == '':
        out.pop()
    return {'rc': p.returncode, 'out': out, 'err': p.stderr[-3000:]}


# --------------------------------------------------------------------------------------
# engine protocol
# --------------------------------------------------------------------------------------

class Hit(dict):
    """A monitor hit: the property is violated on the real code.
    keys: clause, call_site, detail, case (the replayable case)"""


class ImplRun:
    """Result of running one generated case on the real implementation."""

    def __init__(self):
        self.lines = []       # op lines for the model driver
        self.obs = []         # expected model output, 1:1 with lines (None = do not compare)
        self.hits = []        # monitor hits (list of Hit)
        self.tags = set()     # what the case exercised (for the histogram)
        self.nontrivial = False
        self.skipped = 0      # comparisons deliberately skipped (boundary etc.)

    def op(self, line, obs):
        self.lines.append(line)
        self.obs.append(obs)


def case_hash(case):
    return hashlib.sha1(json.dumps(case, sort_keys=True, default=str).encode()).hexdigest()[:16]


def rng_for(seed, *path):
    h = hashlib.sha256(('%s/%s' % (seed, '/'.join(str(p) for p in path))).encode()).digest()
    return random.Random(int.from_bytes(h[:8], 'big'))


def diff_streams(run, model_out, cmp=None):
    """First index where model output differs from the implementation's observation."""
    for i, (exp, got) in enumerate(zip(run.obs, model_out)):
        if exp is None:
            continue
        same = cmp(exp, got) if cmp else exp == got
        if not same:
            return i
    if len(model_out) < len(run.obs):
        return len(model_out)
    return None


def ddmin(items, failing, budget_s=60):
    """Delta-debugging minimisation of a list under predicate `failing(list)->bool`."""
    t0 = time.time()
    n = 2
    items = list(items)
    while len(items) >= 2 and time.time() - t0 < budget_s:
        chunk = max(1, len(items) // n)
        reduced = False
        for i in range(0, len(items), chunk):
            cand = items[:i] + items[i + chunk:]
            if time.time() - t0 > budget_s:
                break
            try:
                if cand and failing(cand):
                    items = cand
                    n = max(n - 1, 2)
                    reduced = True
                    break
            except Exception:  # pylint: disable=broad-except
                pass
        if not reduced:
            if chunk == 1:
                break
            n = min(len(items), n * 2)
    return items


# --------------------------------------------------------------------------------------
# evidence / replay
# --------------------------------------------------------------------------------------

def write_evidence(pid, doc):
    os.makedirs(EVIDENCE_DIR, exist_ok=True)
    path = os.path.join(EVIDENCE_DIR, '%s.json' % pid)
    tmp = path + '.tmp.%d' % os.getpid()
    with open(tmp, 'w') as f:
        json.dump(doc, f, indent=1, sort_keys=True, default=str)
    os.replace(tmp, path)
    return path


def write_replay(pid, seed, doc):
    os.makedirs(REPLAY_DIR, exist_ok=True)
    n = 0
    while True:
        path = os.path.join(REPLAY_DIR, '%s-%s-%d.json' % (pid, seed, n))
        if not os.path.exists(path):
            break
        n += 1
    with open(path, 'w') as f:
        json.dump(doc, f, indent=1, sort_keys=True, default=str)
    return path
