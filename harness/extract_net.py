"""Extractor for the `net` engine (C16) -> lean/TmVerif/Gen/ExtNet.lean (namespace TmVerif.ExtNet).

Data only (control flow is modelled by hand in lean/TmVerif/Net/Model.lean):
  * the port-range constants `treadmill.runtime` allocates from (PORT_SPAN, PROD/NONPROD LOW/HIGH) and
    the environment names that select the prod pool (read from the AST of `_allocate_sockets`);
  * the iptables chain names and IP-set names `_run._unshare_network` / `_finish._cleanup_network` use;
  * the three rule-file name patterns, the wildcard token, `firewall.ANY_PORT` and `endpoints._SEP`
    (used by the driver to render the model's directory entries as the real file names).
Each section is independent (see harness/extract.py).
"""
import ast
import importlib
import os

from fw import REPO_PY


def _lean_str(s):
    out = []
    for ch in s:
        if ch == '\\':
            out.append('\\\\')
        elif ch == '"':
            out.append('\\"')
        elif ch == '\n':
            out.append('\\n')
        elif ch == '\t':
            out.append('\\t')
        elif 32 <= ord(ch) < 127:
            out.append(ch)
        else:
            out.append('\\u{%x}' % ord(ch))
    return '"' + ''.join(out) + '"'


def _nat(v):
    if isinstance(v, bool) or not isinstance(v, int) or v < 0:
        raise ValueError('not a natural number: %r' % (v,))
    return '%d' % v


def _func(modpath, name):
    src = open(os.path.join(REPO_PY, modpath)).read()
    for node in ast.parse(src).body:
        if isinstance(node, ast.FunctionDef) and node.name == name:
            return node
    raise KeyError(name)


def sec_port_ranges(emit):
    """The constants `_allocate_sockets` reads (module globals of treadmill.runtime)."""
    mod = importlib.import_module('treadmill.runtime')
    for lean, py in (('portSpan', 'PORT_SPAN'), ('prodLow', 'PROD_PORT_LOW'), ('prodHigh', 'PROD_PORT_HIGH'),
                     ('nonprodLow', 'NONPROD_PORT_LOW'), ('nonprodHigh', 'NONPROD_PORT_HIGH')):
        emit('/-- `treadmill.runtime.%s`. -/' % py)
        emit('def %s : Nat := %s' % (lean, _nat(getattr(mod, py))))


def sec_prod_envs(emit):
    """`if environment in ('uat', 'prod')` in `_allocate_sockets`: the prod-pool environments, and the
    shape of the function (one `in` test choosing between the two ranges)."""
    fn = _func(os.path.join('treadmill', 'runtime', '__init__.py'), '_allocate_sockets')
    tests = [n for n in ast.walk(fn) if isinstance(n, ast.If) and isinstance(n.test, ast.Compare)
             and isinstance(n.test.left, ast.Name) and n.test.left.id == 'environment']
    if len(tests) != 1:
        raise ValueError('expected exactly one test on `environment`, found %d' % len(tests))
    cmp_ = tests[0].test
    if len(cmp_.ops) != 1 or not isinstance(cmp_.ops[0], ast.In):
        raise ValueError('environment test is not `in`')
    envs = ast.literal_eval(cmp_.comparators[0])
    if not all(isinstance(e, str) for e in envs):
        raise ValueError('environment names are not strings')

    def _range_names(body):
        names = []
        for n in ast.walk(ast.Module(body=body, type_ignores=[])):
            if isinstance(n, ast.Name) and n.id.endswith(('_LOW', '_HIGH')):
                names.append(n.id)
        return sorted(names)
    if _range_names(tests[0].body) != ['PROD_PORT_HIGH', 'PROD_PORT_LOW']:
        raise ValueError('prod branch does not use PROD_PORT_LOW..PROD_PORT_HIGH')
    if _range_names(tests[0].orelse) != ['NONPROD_PORT_HIGH', 'NONPROD_PORT_LOW']:
        raise ValueError('non-prod branch does not use NONPROD_PORT_LOW..NONPROD_PORT_HIGH')
    emit('/-- environments served from the prod pool (`_allocate_sockets`). -/')
    emit('def prodEnvs : List String := [%s]' % ', '.join(_lean_str(e) for e in envs))


def sec_chains(emit):
    mod = importlib.import_module('treadmill.iptables')
    for lean, py in (('chainDnat', 'PREROUTING_DNAT'), ('chainSnat', 'POSTROUTING_SNAT'),
                     ('chainPassthrough', 'PREROUTING_PASSTHROUGH')):
        v = getattr(mod, py)
        if not isinstance(v, str):
            raise ValueError('%s is not a str' % py)
        emit('/-- `treadmill.iptables.%s`. -/' % py)
        emit('def %s : String := %s' % (lean, _lean_str(v)))


def sec_ipsets(emit):
    mod = importlib.import_module('treadmill.iptables')
    for lean, py in (('setVring', 'SET_VRING_CONTAINERS'), ('setInfra', 'SET_INFRA_SVC')):
        v = getattr(mod, py)
        if not isinstance(v, str):
            raise ValueError('%s is not a str' % py)
        emit('/-- `treadmill.iptables.%s`. -/' % py)
        emit('def %s : String := %s' % (lean, _lean_str(v)))


def sec_file_patterns(emit):
    rf = importlib.import_module('treadmill.rulefile')
    fwm = importlib.import_module('treadmill.firewall')
    epm = importlib.import_module('treadmill.endpoints')
    for lean, py in (('patDnat', '_DNAT_FILE_PATTERN'), ('patSnat', '_SNAT_FILE_PATTERN'),
                     ('patPassthrough', '_PASSTHROUGH_FILE_PATTERN'), ('anyToken', '_ANY')):
        v = getattr(rf, py)
        if not isinstance(v, str):
            raise ValueError('%s is not a str' % py)
        emit('/-- `treadmill.rulefile.%s`. -/' % py)
        emit('def %s : String := %s' % (lean, _lean_str(v)))
    emit('/-- `treadmill.firewall.ANY_PORT` (rendered as the wildcard token in rule file names). -/')
    emit('def anyPort : Nat := %s' % _nat(fwm.ANY_PORT))
    if not isinstance(epm._SEP, str):
        raise ValueError('endpoints._SEP is not a str')
    emit('/-- `treadmill.endpoints._SEP`. -/')
    emit('def specSep : String := %s' % _lean_str(epm._SEP))


SECTIONS = [sec_port_ranges, sec_prod_envs, sec_chains, sec_ipsets, sec_file_patterns]
