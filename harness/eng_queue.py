"""Engine `queue` (C06): the real `Allocation.priv_utilization_queue`, `Allocation.total_reserved`,
`Allocation.utilization_queue(free)`, `Node.size(label)`, `Cell.schedule_alloc` (queue handed to
`_record_rank_and_util` / `_find_placements`) and `Loader.find_assignment` / `load_app`
vs the Lean model `TmVerif.Queue` instantiated with IEEE doubles (lean/drivers/Queue.lean).

Shrinking removes instances and assignment entries/queries.

Case = {
  'cell':  topology ['B', name, [children]] | ['S', name, label, [mem, cpu, disk]]; labels 'p' | 'o' | None
  'rm':    [server names removed again after construction]           (None holes / empty buckets)
  'tree':  {'res': [3 ints], 'rank': int|None, 'adj': int, 'maxu': float|int|None,
            'apps': [{'id', 'prio', 'dem': [3 ints], 'run': bool, 'ord': int}], 'subs': [...]}
  'free':  [[3 numbers], ...]   free capacities for direct `utilization_queue(free)` calls
  'asg':   {'allocs': [name, ...], 'entries': [[alloc idx, pattern, priority], ...],
            'finds': [instance name, ...], 'loads': [[instance name, manifest priority|None], ...]}
}
Scores are compared as IEEE bit patterns; nothing is printed in decimal.
"""
import copy
import random
import struct
from fractions import Fraction

import mock

import fw

NAME = 'queue'
DRIVER = 'Queue'
CASES = {'quick': 3000, 'thorough': 40000, 'search': 4000}
RULE = {
    'C06': 'random allocation trees (depth 0-4, fan-out 0-3, reservations incl. zero dimensions, ranks, '
           'rank adjustments, utilisation caps incl. <1, ints and inf) with 0-12 instances per allocation '
           '(priorities incl. 0 and MAX_PRIORITY and equal ones, independent demand dimensions incl. zero, '
           'running/pending mix really placed on servers of a small real cell, shuffled arrival order); '
           'every allocation\'s private queue and total_reserved, the root queue for 1-2 free capacities, '
           'size(label) and the queue of a real schedule_alloc cycle are compared bit-for-bit with the '
           'Float-instantiated model; plus assignment tables (patterns with * ? @, default tenant, '
           'manifest priority). non-trivial = >=3 allocations with instances AND an instance boosted and '
           'one not boosted AND a priority-0 or unplaced (capped) instance AND some allocation whose '
           'instances are interleaved with another\'s in the final queue; distinct = distinct case hash',
}

EPS = Fraction(1, 2 ** 52)
INF_BITS = 0x7FF0000000000000


def bits(x):
    return struct.unpack('<Q', struct.pack('<d', float(x)))[0]


def aname(i):
    # zero padded: string order of names == numeric order of ids
    return 'p.a%05d#%010d' % (i, i)


def aid(name):
    return int(name[3:8])


# ----------------------------------------------------------------------------------------------
# generation
# ----------------------------------------------------------------------------------------------

def _gen_cell(rng):
    """Topology: 1-3 racks of 0-3 servers; most servers labelled 'p'."""
    n = [0]

    def server(big):
        n[0] += 1
        lab = rng.choice(['p', 'p', 'p', 'o', None])
        cap = [rng.choice([0, 5, 10, 50, 200, 1000]) for _ in range(3)] if not big else [10 ** 6] * 3
        return ['S', 's%d' % n[0], lab, cap]

    def bucket(depth):
        n[0] += 1
        name = 'b%d' % n[0]
        kids = []
        for _ in range(rng.randint(0, 3)):
            if depth < 2 and rng.random() < 0.3:
                kids.append(bucket(depth + 1))
            else:
                kids.append(server(False))
        return ['B', name, kids]
    top = ['B', 'top', [bucket(1) for _ in range(rng.randint(0, 3))]]
    if rng.random() < 0.8:
        # one roomy rack so that `running` instances can really be placed
        n[0] += 1
        rack = ['B', 'b%d' % n[0], [['S', 'big%d' % k, 'p', [10 ** 6] * 3] for k in range(rng.randint(1, 2))]]
        top[2].insert(rng.randint(0, len(top[2])), rack)
    if rng.random() < 0.15:
        top[2].append(server(False))       # a server directly under the cell
    servers = []

    def walk(nd):
        if nd[0] == 'S':
            servers.append(nd[1])
        else:
            for c in nd[2]:
                walk(c)
    walk(top)
    rm = [s for s in servers if not s.startswith('big') and rng.random() < 0.12]
    return top, rm


PRIOS = [0, 0, 1, 1, 1, 2, 5, 10, 10, 50, 99, 100, 100]
DEMS = [0, 0, 1, 1, 2, 3, 5, 10, 10, 40]
RES = [0, 0, 1, 5, 10, 10, 20, 50, 100, 1000]
MAXU = [None, None, None, None, 0, 0.5, 1, 1.0, 1.5, 2, 2.5, 1.2, 3.75, float('inf'), 0.9999999999999999, 1.1]


def _gen_tree(rng, malformed):
    ctr = {'id': 0}
    orders = list(range(1, 4000))      # more than any tree can hold (up to ~120 allocations x 12 instances)
    rng.shuffle(orders)
    max_depth = rng.choice([0, 1, 1, 2, 2, 3, 3, 4])
    many = rng.random() < 0.5
    dup_order = malformed and rng.random() < 0.5
    wide = rng.random() < 0.15          # awkward magnitudes: quotients that round, large but exactly representable sums
    WIDE = [3, 7, 13, 333, 99999, 123456789, 2 ** 40 + 1, 2 ** 48 + 1]
    neg_adj = malformed and not dup_order

    def alloc(depth):
        style = rng.random()
        if style < 0.2:
            res = [0, 0, 0]
        elif style < 0.35:
            res = [rng.choice(RES) for _ in range(3)]
        else:
            base = rng.choice(RES[2:])
            res = [base, base, base] if rng.random() < 0.6 else [base, rng.choice(RES), rng.choice(RES)]
        if wide and rng.random() < 0.5:
            res = [rng.choice(WIDE) for _ in range(3)]
        napps = rng.randint(0, 12) if many else rng.randint(0, 4)
        eqprio = rng.choice(PRIOS) if rng.random() < 0.3 else None
        apps = []
        for _ in range(napps):
            ctr['id'] += 1
            d = rng.choice(DEMS)
            dem = [d, d, d] if rng.random() < 0.4 else [rng.choice(DEMS) for _ in range(3)]
            if rng.random() < 0.05:
                dem = [0, 0, 0]
            if wide and rng.random() < 0.5:
                dem = [rng.choice(WIDE) for _ in range(3)]
            o = orders.pop()
            if dup_order and rng.random() < 0.3:
                o = rng.randint(1, 5)
            apps.append({'id': ctr['id'], 'prio': eqprio if eqprio is not None and rng.random() < 0.8
                         else rng.choice(PRIOS), 'dem': dem, 'run': rng.random() < 0.45, 'ord': o})
        rng.shuffle(apps)          # dict (arrival) order is independent of ids / global order
        subs = []
        if depth < max_depth:
            for _ in range(rng.randint(0, 3)):
                subs.append(alloc(depth + 1))
        adj = rng.choice([0, 0, 1, 5, 10, 50, 100])
        if neg_adj and rng.random() < 0.5:
            adj = -rng.choice([1, 10, 50])
        node = {'res': res, 'rank': rng.choice([None, 100, 100, 100, 99, 50, 10, 0, 110]),
                'adj': adj, 'maxu': rng.choice(MAXU), 'apps': apps, 'subs': subs}
        if rng.random() < 0.3:
            # the allocation was loaded before with another configuration (a reload of /allocations reuses the
            # object and calls `update` again): nothing of the earlier configuration may survive
            node['prev'] = {'res': [rng.choice([0, 1, 5, 50]) for _ in range(3)],
                            'rank': rng.choice([None, 100, 50, 10]), 'adj': rng.choice([0, 5, 50]),
                            'maxu': rng.choice(MAXU)}
        return node
    t = alloc(0)
    if ctr['id'] == 0:
        ctr['id'] = 1
        t['apps'].append({'id': 1, 'prio': 1, 'dem': [1, 1, 1], 'run': False, 'ord': orders.pop()})
    return t


PROIDS = ['foo', 'bar', 'ba', 'foo-x', 'x_y']
APPS = ['web', 'web1', 'w', 'db.master', 'a.b.c', 'w-b']


def _gen_asg(rng, malformed):
    allocs = []
    entries = []
    for i in range(rng.randint(0, 4)):
        allocs.append('%s/a%d' % (rng.choice(['t1', 't2', 't1:sub']), i))
        for _ in range(rng.randint(0, 3)):
            pr = rng.choice(PROIDS)
            shape = rng.random()
            if shape < 0.3:
                pat = pr + '.*'
            elif shape < 0.45:
                pat = pr + '.' + rng.choice(APPS)
            elif shape < 0.6:
                pat = pr + '.' + rng.choice(['w*', 'w?b', '*b*', 'web?', '?', 'd*.m*', '*.b.*'])
            elif shape < 0.75:
                pat = rng.choice(['*', 'svc', 's?c', 'sv*']) + '@' + pr + '.' + rng.choice(['*', 'web*', 'web'])
            elif shape < 0.85:
                pat = rng.choice(['*', pr, pr + '*', 'f*.w*', '?oo.*', pr + '.'])
            elif malformed and shape < 0.93:
                pat = pr + rng.choice(['.[w]eb', '.we[!a]', '.web]', '.a.b@c.*', '@.', '.@x.*', ''])
            else:
                pat = pr + '.web*'
            entries.append([i, pat, rng.choice([0, 1, 1, 5, 10, 100])])

    def inst():
        pr = rng.choice(PROIDS)
        app = rng.choice(APPS)
        r = rng.random()
        base = pr + '.' + app
        if r < 0.2:
            base = rng.choice(['svc', 'x', 'sv']) + '@' + base
        suffix = '#%010d' % rng.randint(0, 9999)
        if malformed:
            m = rng.random()
            if m < 0.15:
                base = pr                      # no '.' at all: ValueError in the default branch
            elif m < 0.25:
                suffix = '#%09d' % rng.randint(0, 99)
            elif m < 0.32:
                suffix = '#%011d' % rng.randint(0, 99)
            elif m < 0.4:
                suffix = '#00000000x1'
            elif m < 0.45:
                suffix = ''
            elif m < 0.5:
                base = app + '.x@' + pr       # '.' before '@'
            elif m < 0.55:
                base = base + '\n'
        return base + suffix
    finds = [inst() for _ in range(rng.randint(2, 8))]
    loads = []
    for _ in range(rng.randint(1, 4)):
        pr = rng.choice(PROIDS)
        name = '%s.%s#%010d' % (pr, rng.choice(APPS), rng.randint(0, 9999))
        if rng.random() < 0.2:
            name = 'svc@' + name
        loads.append([name, rng.choice([None, None, -1, -1, 0, 3, 100])])
    prev = []
    if allocs and rng.random() < 0.35:
        # the table of an earlier load (the loader is long-lived: an allocations event reloads the table);
        # other patterns, among them proids that have no entry at all in the table loaded afterwards
        for _ in range(rng.randint(1, 4)):
            pr = rng.choice(PROIDS)
            prev.append([rng.randrange(len(allocs)), rng.choice([pr + '.*', pr + '.web*', '*@' + pr + '.*', pr + '.' + rng.choice(APPS)]),
                         rng.choice([0, 1, 5, 50])])
    return {'allocs': allocs, 'entries': entries, 'finds': finds, 'loads': loads, 'prev': prev,
            'parent_records': rng.random() < 0.3}


def gen_case(rng, pid, tier):
    malformed = rng.random() < 0.12
    cell, rm = _gen_cell(rng)
    tree = _gen_tree(rng, malformed)
    free = []
    for _ in range(rng.randint(1, 2)):
        r = rng.random()
        if r < 0.2:
            free.append([0, 0, 0])
        elif r < 0.3:
            free.append('eps')
        else:
            free.append([rng.choice([1, 10, 100, 1000, 12345]) for _ in range(3)])
    # instances that reach their allocation by a MOVE (Cell.add_app on an instance that already belongs to
    # another allocation, as Loader.load_app does when the assignment changed) and instances that are
    # removed again (Cell.remove_app): [id, index of the first allocation] / [id, index, prio, demand]
    ids = []

    def collect(t):
        ids.extend(a['id'] for a in t['apps'])
        for s_ in t['subs']:
            collect(s_)
    collect(tree)
    moves, drops = [], []
    if ids and rng.random() < 0.35:
        for i in rng.sample(ids, min(len(ids), rng.randint(1, 3))):
            moves.append([i, rng.randint(0, 7)])
        for k in range(rng.randint(0, 2)):
            drops.append([90000 + k, rng.randint(0, 7), rng.randint(0, 100), [rng.randint(0, 5) for _ in range(3)],
                          rng.randint(0, 7) if rng.random() < 0.5 else None])
    # (side stream) some servers are down or frozen when the queue is computed: the size of a partition - what the
    # utilisation of an allocation is measured against - is the declared capacity of its servers, whatever their state
    r_st = random.Random(repr(rng.getstate()[1][:4]) + 'server-states')
    states = {}

    def names_of(nd):
        if nd[0] == 'S':
            return [nd[1]]
        return [n_ for c_ in nd[2] for n_ in names_of(c_)]
    if r_st.random() < 0.3:
        for n_ in names_of(cell):
            if r_st.random() < 0.4:
                states[n_] = r_st.choice(['down', 'frozen'])
    return {'cell': cell, 'rm': rm, 'tree': tree, 'free': free, 'asg': _gen_asg(rng, malformed),
            'moves': moves, 'drops': drops, 'states': states}


# ---- shrinking: the ops are the instances --------------------------------------------------------

def case_ops(case):
    out = []

    def walk(t, path):
        for a in t['apps']:
            out.append(['app', list(path), a])
        for i, s in enumerate(t['subs']):
            walk(s, path + [i])
    walk(case['tree'], [])
    asg = case.get('asg') or {}
    for e in asg.get('entries', []):
        out.append(['entry', e])
    for n in asg.get('finds', []):
        out.append(['find', n])
    for l in asg.get('loads', []):
        out.append(['load', l])
    return out


def with_ops(case, ops):
    c = copy.deepcopy(case)
    keep = {}
    for op in ops:
        if op[0] == 'app':
            keep.setdefault(tuple(op[1]), []).append(op[2])

    def walk(t, path):
        t['apps'] = list(keep.get(tuple(path), []))
        for i, s in enumerate(t['subs']):
            walk(s, path + [i])
    walk(c['tree'], [])
    c['asg'] = {'allocs': list((case.get('asg') or {}).get('allocs', [])),
                'prev': list((case.get('asg') or {}).get('prev', [])),
                'parent_records': bool((case.get('asg') or {}).get('parent_records')),
                'entries': [op[1] for op in ops if op[0] == 'entry'],
                'finds': [op[1] for op in ops if op[0] == 'find'],
                'loads': [op[1] for op in ops if op[0] == 'load']}
    return c


# ----------------------------------------------------------------------------------------------
# running the real code
# ----------------------------------------------------------------------------------------------

class _Backend:
    """The three calls `load_allocations` / `load_app` make."""

    def __init__(self):
        self.data = {}

    def get_default(self, path, default=None):
        return copy.deepcopy(self.data.get(path, default))

    def get(self, path):
        return copy.deepcopy(self.data[path])

    def exists(self, path):
        return path in self.data

    def list(self, path):
        return []


def _enc_str(s):
    return '.'.join(str(ord(c)) for c in s) or '-'


def _score_bits(x):
    return bits(x)


def _entry_obs(e):
    rank, ub, ua, pending, order, app = e
    return '%d:%d:%d:%d:%d:%s' % (aid(app.name), rank, 1 if pending else 0, bits(ub), bits(ua), _arrival_no(order))


def _arrival_no(order):
    """The arrival number behind a `global_order` stamp (microseconds since the scheduler's base date; the
    instances are created a quarter of a second apart, see `_arrive`); a stamp that is not one of those
    instants is shown raw."""
    from treadmill import scheduler as sch
    rel = int(order) - (int(T0 * 1000000) - sch._GLOBAL_ORDER_BASE)      # pylint: disable=protected-access
    return '%d' % (rel // 250000) if rel % 250000 == 0 else 'raw%d' % int(order)


def _queue_obs(q):
    return ','.join(_entry_obs(e) for e in q) or '-'


def _tree_line(t, allocs):
    """Pre-order token list; `running` is read from the real apps."""
    out = []

    def walk(t, a):
        mu = t['maxu']
        out.append('A %d %d %d %s %d %s %d %d' % (
            t['res'][0], t['res'][1], t['res'][2], 'none' if t['rank'] is None else t['rank'], t['adj'],
            # `max_utilization = inf` is the default `_MAX_UTILIZATION` itself
            'none' if mu is None or mu == float('inf') else bits(mu), len(t['apps']), len(t['subs'])))
        for ad in t['apps']:
            app = a.apps[aname(ad['id'])]
            out.append('%d:%d:%d:%d:%d:%d:%d' % (ad['id'], ad['prio'], ad['dem'][0], ad['dem'][1], ad['dem'][2],
                                                  1 if app.server else 0, ad['ord']))
        for s, (_n, sa) in zip(t['subs'], a.sub_allocations.items()):
            walk(s, sa)
    walk(t, allocs)
    return 'tree ' + ' '.join(out)


def _cell_line(node, label):
    out = []

    def walk(nd):
        hl = 1 if label in nd.labels else 0
        if hasattr(nd, 'init_capacity'):
            c = nd.init_capacity
            assert all(float(x) == int(x) for x in c)
            out.append('S %d %d %d %d' % (hl, int(c[0]), int(c[1]), int(c[2])))
        else:
            kids = list(nd.children_iter())
            assert len(kids) == len(nd.children_by_name)
            out.append('B %d %d' % (hl, len(kids)))
            for k in kids:
                walk(k)
    walk(node)
    return 'cell ' + ' '.join(out)


def _monitor(run, q, tree_info, sch, site, running):
    """The statement of C06 on a real queue `q` (list of tuples), independent of the model.

    tree_info: list of dicts per allocation: {'alloc': real Allocation, 'names': set of app names}
    """
    names = [e[5].name for e in q]
    expect = sorted(n for ti in tree_info for n in ti['names'])
    if sorted(names) != expect:
        run.hits.append(fw.Hit(clause='not-a-permutation', call_site=site,
                               detail='queue has %d entries, tree has %d instances' % (len(names), len(expect))))
    ranks = [e[0] for e in q]
    neg_adj = any(ti['alloc'].rank_adjustment < 0 for ti in tree_info)
    if neg_adj:
        run.tags.add('neg-adj')
    else:
        for i in range(len(q) - 1):
            if ranks[i] > ranks[i + 1]:
                run.hits.append(fw.Hit(clause='rank-order', call_site=site,
                                       detail='%s rank %d before %s rank %d' % (names[i], ranks[i], names[i + 1], ranks[i + 1])))
                break
    pos = {n: i for i, n in enumerate(names)}
    by_name = {e[5].name: e for e in q}
    for ti in tree_info:
        a = ti['alloc']
        mine = sorted((n for n in ti['names'] if n in pos), key=lambda n: pos[n])
        apps = [a.apps[n] for n in mine]
        arr = ti['arrival']
        keys = [(-x.priority, 0 if running[x.name] else 1, arr[x.name], x.name) for x in apps]
        for i in range(len(keys) - 1):
            if keys[i] > keys[i + 1]:
                run.hits.append(fw.Hit(clause='alloc-order', call_site=site,
                                       detail='%s before %s in allocation %s' % (mine[i], mine[i + 1], a.name)))
                break
        # reservation / cap, exact arithmetic, cumulative demand in priority order
        order = sorted(a.apps.values(), key=lambda x: (-x.priority, 0 if running[x.name] else 1, arr[x.name], x.name))
        res = [Fraction(float(r)) for r in a.reserved]
        acc = [Fraction(0)] * 3
        mu = a.max_utilization
        for x in order:
            acc = [acc[i] + Fraction(float(x.demand[i])) for i in range(3)]
            if x.name not in by_name:
                continue
            rank = by_name[x.name][0]
            if x.priority == 0:
                continue
            ua = max((acc[i] - res[i]) / (res[i] + EPS) for i in range(3))
            within_cap = True
            if mu != float('inf'):
                bound = Fraction(mu) - 1
                if ua != bound and abs(ua - bound) <= Fraction(1, 10 ** 9) * max(1, abs(bound)) or \
                        (ua == bound and ua != 0):
                    run.skipped += 1
                    run.tags.add('cap-float-boundary')
                    continue
                within_cap = ua <= bound
                if not within_cap:
                    ti.setdefault('capped', []).append(x.name)
                    if rank != sch._UNPLACED_RANK:  # pylint: disable=protected-access
                        run.hits.append(fw.Hit(clause='cap-not-unplaced', call_site=site,
                                               detail='%s utilisation beyond cap %r of %s has rank %d' % (x.name, mu, a.name, rank)))
            dem = [float(d) for d in x.demand]
            if within_cap and all(acc[i] <= res[i] for i in range(3)) and any(d != 0 for d in dem):
                boosted = a.rank - a.rank_adjustment
                ti.setdefault('within', []).append(x.name)
                if rank != boosted:
                    strict = all(d > 0 for d in dem)
                    run.hits.append(fw.Hit(
                        clause='boost-missing' if strict else 'boost-zero-dimension',
                        call_site='Allocation.priv_utilization_queue',
                        detail='%s cumulative demand %s within reservation %s of %s but rank %d != %d' % (
                            x.name, [int(v) for v in acc], [int(v) for v in res], a.name, rank, boosted)))
    # priority 0 after all others of the same rank
    seen_zero = {}
    for e in q:
        if e[5].priority == 0:
            seen_zero.setdefault(e[0], e[5].name)
        elif e[0] in seen_zero and not neg_adj:
            run.hits.append(fw.Hit(clause='prio0-not-last', call_site=site,
                                   detail='%s (priority 0) before %s at rank %d' % (seen_zero[e[0]], e[5].name, e[0])))
            break


def run_impl(case, pid):
    from treadmill import scheduler as sch
    import numpy as np
    sch.DIMENSION_COUNT = 3
    run = fw.ImplRun()
    clock = [T0]
    with mock.patch('time.time', lambda: clock[0]), np.errstate(all='ignore'):
        _run_queue(case, run, sch, np, clock)
        if case.get('asg') and (case['asg']['entries'] or case['asg']['finds'] or case['asg']['loads']):
            _run_assign(case['asg'], run)
    return run


T0 = 1500000000.0


def _arrive(clock, order):
    """The clock at which the instance with arrival number `order` is created: a quarter of a second
    apart (exact in binary), so that `Application.__init__` stamps it through the real `_global_order()`."""
    clock[0] = T0 + order * 0.25


def _run_queue(case, run, sch, np, clock):
    # ---- the cell -----------------------------------------------------------------------------
    cell = sch.Cell('top')
    servers = {}

    def build(nd, parent):
        if nd[0] == 'S':
            s = sch.Server(nd[1], nd[3], valid_until=10 ** 12, label=nd[2])
            parent.add_node(s)
            servers[nd[1]] = s
        else:
            b = sch.Bucket(nd[1], traits=0, level='rack')
            for c in nd[2]:
                build(c, b)
            parent.add_node(b)
    for c in case['cell'][2]:
        build(c, cell)
    for name in case['rm']:
        s = servers.pop(name, None)
        if s is not None and s.parent is not None:
            s.parent.remove_node(s)
    for name, st_ in sorted((case.get('states') or {}).items()):
        if name in servers:
            servers[name].set_state(sch.State(st_), 0)
            run.tags.add('server-not-up')
    size = cell.size('p')
    run.op(_cell_line(cell, 'p'), 'size=%d,%d,%d' % tuple(bits(x) for x in size))

    # ---- the allocation tree ------------------------------------------------------------------
    info = []
    napps = [0]
    arrival = {}        # instance -> its arrival number in the case (the monitor's first-come order)

    def mk(t, path):
        # as the loader does: get_sub_alloc creates `Allocation()`, load_allocations calls `update`
        # (the constructor's own max_utilization argument is overwritten by its call of `update`)
        a = sch.Allocation(partition='p')
        if t.get('prev'):
            # the allocation is first loaded with an earlier record; a cycle may run on that (whatever the queue
            # computes then - totals of reservations per level - is computed again on the record loaded last)
            pv = t['prev']
            a.update(list(pv['res']), pv['rank'], pv['adj'], pv['maxu'])
            reloads.append((a, t))
        else:
            a.update(list(t['res']), t['rank'], t['adj'], t['maxu'])
        names = set()
        for ad in t['apps']:
            _arrive(clock, ad['ord'])
            app = sch.Application(aname(ad['id']), ad['prio'], list(ad['dem']), 'aff%d' % ad['id'])
            clock[0] = T0
            arrival[app.name] = ad['ord']
            if ad['id'] in moved:
                pending.append((app, a))          # joins `a` later, coming from another allocation
            else:
                cell.add_app(a, app)
            names.add(app.name)
            napps[0] += 1
        ti = {'alloc': a, 'names': names, 'path': path, 't': t, 'arrival': arrival}
        info.append(ti)
        for i, s in enumerate(t['subs']):
            a.add_sub_alloc('s%d' % i, mk(s, path + [i]))
        return a
    moved = {m[0]: m[1] for m in case.get('moves', [])}
    pending = []
    reloads = []
    root = mk(case['tree'], [])
    root.path = ['root']
    if reloads:
        try:
            list(root.utilization_queue(sch.eps_capacity()))      # the cycle that ran before the reload
        except TypeError:
            pass
        for a_, t_ in reloads:
            a_.update(list(t_['res']), t_['rank'], t_['adj'], t_['maxu'])
        run.tags.add('queue-before-reload')
    # moves: first into some other allocation, then Cell.add_app into the final one
    for app, final in pending:
        first = info[moved[aid(app.name)] % len(info)]['alloc']
        cell.add_app(first, app)
        cell.add_app(final, app)
        run.tags.add('moved' if first is not final else 'moved-same')
    # instances added (possibly moved once) and removed again
    for d in case.get('drops', []):
        _arrive(clock, 100000 + d[0])
        app = sch.Application(aname(d[0]), d[2], list(d[3]), 'aff%d' % d[0])
        clock[0] = T0
        cell.add_app(info[d[1] % len(info)]['alloc'], app)
        if d[4] is not None:
            cell.add_app(info[d[4] % len(info)]['alloc'], app)
        cell.remove_app(app.name)
        run.tags.add('dropped')
    # really place the instances that are to be `running` (first labelled server that takes them)
    target = [s for n, s in sorted(servers.items()) if 'p' in s.labels]
    for ti in info:
        for ad in ti['t']['apps']:
            if ad['run']:
                app = ti['alloc'].apps[aname(ad['id'])]
                for s in target:
                    if s.put(app):
                        break
    run.op(_tree_line(case['tree'], root), 'ok apps=%d allocs=%d' % (napps[0], len(info)))
    running = {n: bool(a.server) for n, a in cell.apps.items()}      # state at the start of the cycle

    # ---- per allocation: total_reserved and private queue ------------------------------------------
    for ti in info:
        p = '.'.join(str(i) for i in ti['path']) or '-'
        tr = ti['alloc'].total_reserved()
        run.op('total %s' % p, 'total=%d,%d,%d' % tuple(bits(x) for x in tr))
        pq = list(ti['alloc'].priv_utilization_queue())
        run.op('priv %s' % p, 'q=%s' % _queue_obs(pq))

    # ---- the root queue for given free capacities ------------------------------------------------
    stats = {}
    for fr in case['free']:
        free = sch.eps_capacity() if fr == 'eps' else np.array(fr, dtype=float)
        line = 'queue %d %d %d' % tuple(bits(x) for x in free)
        try:
            q = list(root.utilization_queue(free))
        except TypeError:
            run.op(line, 'typeerror')
            run.tags.add('order-tie-typeerror')
            continue
        run.op(line, 'q=%s' % _queue_obs(q))
        _monitor(run, q, info, sch, 'Allocation.utilization_queue', running)
        stats = _stats(q, info, sch, running)

    # ---- a real scheduling cycle of the partition ---------------------------------------------------
    captured = {}
    orig_rec = sch.Cell._record_rank_and_util  # pylint: disable=protected-access
    orig_fp = sch.Cell._find_placements  # pylint: disable=protected-access

    def rec(self, queue):
        captured['util_queue'] = list(queue)
        return orig_rec(self, queue)

    def fp(self, queue, srvs):
        captured['placing'] = [a.name for a in queue
                               if a.final_rank != sch._UNPLACED_RANK]  # pylint: disable=protected-access
        captured['queue'] = [a.name for a in queue]
        return orig_fp(self, queue, srvs)
    members = cell.members()
    try:
        with mock.patch.object(sch.Cell, '_record_rank_and_util', rec), \
                mock.patch.object(sch.Cell, '_find_placements', fp):
            cell.schedule_alloc(root, members)
    except TypeError:
        run.op('sched', 'typeerror')
        run.tags.add('order-tie-typeerror')
    else:
        q = captured['util_queue']
        run.op('sched', 'q=%s placing=%s' % (
            _queue_obs(q), ','.join(str(aid(n)) for n in captured['placing']) or '-'))
        if captured['queue'] != [e[5].name for e in q]:
            run.hits.append(fw.Hit(clause='queue-differs', call_site='Cell.schedule_alloc',
                                   detail='_find_placements received a different sequence than utilization_queue'))
        _monitor(run, q, info, sch, 'Cell.schedule_alloc', running)
        stats = _stats(q, info, sch, running) or stats
        for e in q:
            app = e[5]
            if app.final_rank != e[0]:
                run.hits.append(fw.Hit(clause='final-rank', call_site='Cell._record_rank_and_util',
                                       detail='%s final_rank %r != queue rank %r' % (app.name, app.final_rank, e[0])))
            if e[0] == sch._UNPLACED_RANK and app.server:  # pylint: disable=protected-access
                run.hits.append(fw.Hit(clause='unplaced-scheduled', call_site='Cell._find_placements',
                                       detail='%s has the unplaced rank but sits on %s after the cycle' % (app.name, app.server)))
    # ---- tags ---------------------------------------------------------------------------------------------
    for k, v in stats.items():
        if v:
            run.tags.add(k)
    depth = _depth(case['tree'])
    run.tags.add('depth=%d' % depth)
    run.tags.add('apps=%s' % ('0-5' if napps[0] <= 5 else '6-20' if napps[0] <= 20 else '21+'))
    run.nontrivial = bool(stats.get('allocs-with-apps>=3') and stats.get('boosted') and stats.get('not-boosted') and
                          (stats.get('prio0') or stats.get('unplaced')) and stats.get('interleaved'))


def _depth(t):
    return 0 if not t['subs'] else 1 + max(_depth(s) for s in t['subs'])


def _stats(q, info, sch, running):
    st = {}
    names = [e[5].name for e in q]
    owner = {}
    for k, ti in enumerate(info):
        for n in ti['names']:
            owner[n] = k
    st['allocs-with-apps>=3'] = sum(1 for ti in info if ti['names']) >= 3
    for e in q:
        a = e[5].allocation
        if e[0] == sch._UNPLACED_RANK:  # pylint: disable=protected-access
            st['unplaced'] = True
        elif a.rank_adjustment != 0 and e[0] == a.rank - a.rank_adjustment:
            st['boosted'] = True
        else:
            st['not-boosted'] = True
        if e[5].priority == 0:
            st['prio0'] = True
        if running[e[5].name]:
            st['running'] = True
        else:
            st['pending'] = True
    # interleaving: some allocation's instances are not contiguous in the queue
    seq = [owner.get(n) for n in names]
    closed = set()
    for i, o in enumerate(seq):
        if i and seq[i - 1] != o:
            closed.add(seq[i - 1])
            if o in closed:
                st['interleaved'] = True
    if any(ti.get('within') for ti in info):
        st['within-reservation'] = True
    if any(ti.get('capped') for ti in info):
        st['beyond-cap'] = True
    if len(set(e[0] for e in q)) >= 3:
        st['ranks>=3'] = True
    return st


def _run_assign(asg, run):
    import re as _re0
    from treadmill.scheduler import loader as ldr_mod
    from treadmill import zknamespace as z
    backend = _Backend()
    data = []
    for i, name in enumerate(asg['allocs']):
        data.append({'partition': '_default', 'name': name, 'rank': 100, 'memory': '10M', 'cpu': '10%',
                     'disk': '10M',
                     'assignments': [{'pattern': e[1], 'priority': e[2]} for e in asg['entries'] if e[0] == i]})
    ldr = ldr_mod.Loader(backend, 'cell')
    ldr.cell.partitions['_default'] = ldr_mod.scheduler.Partition(label='_default')
    if asg.get('prev'):
        # an earlier table was loaded by the same loader: what counts afterwards is the table loaded last
        backend.data[z.ALLOCATIONS] = [
            {'partition': '_default', 'name': name, 'rank': 100, 'memory': '10M', 'cpu': '10%', 'disk': '10M',
             'assignments': [{'pattern': e[1], 'priority': e[2]} for e in asg['prev'] if e[0] == i]}
            for i, name in enumerate(asg['allocs'])]
        ldr.load_allocations()
        run.tags.add('asg-reloaded')
    # records of parent allocations of their own (`t1` besides `t1/a0`), listed BEFORE their children, with
    # attributes of their own: a record configures the allocation it names and nothing else
    parents = sorted({_re0.split('[/:]', name)[0] for name in asg['allocs']}) if asg.get('parent_records') else []
    pdata = [{'partition': '_default', 'name': pn, 'rank': 10 + 7 * j, 'rank_adjustment': 3 + j, 'max_utilization': 2 + j,
              'memory': '%dM' % (20 + j), 'cpu': '%d%%' % (30 + j), 'disk': '%dM' % (40 + j), 'assignments': []}
             for j, pn in enumerate(parents)]
    backend.data[z.ALLOCATIONS] = pdata + data
    ldr.load_allocations()
    if pdata:
        run.tags.add('asg-parent-records')
        root_ = ldr.cell.partitions['_default'].allocation
        for rec_ in pdata + data:
            a_ = root_
            for part in _re0.split('[/:]', rec_['name']):
                a_ = a_.get_sub_alloc(part)
            want = (rec_['rank'], rec_.get('rank_adjustment', 0) or 0,
                    rec_.get('max_utilization') if rec_.get('max_utilization') is not None else float('inf'),
                    tuple(ldr_mod.resources(rec_)))
            got = (a_.rank, a_.rank_adjustment, a_.max_utilization, tuple(a_.reserved))
            # (an allocation named by several records keeps the attributes of the last one)
            last = [r2 for r2 in pdata + data if r2['name'] == rec_['name']][-1]
            if last is rec_ and got != want:
                run.hits.append(fw.Hit(clause='allocation-attributes', call_site='Loader.load_allocations',
                                       detail='%s: record says (rank, adjustment, cap, reserved) = %r, loaded %r' % (
                                           rec_['name'], want, got)))
    root = ldr.cell.partitions['_default'].allocation
    import re as _re
    objs = {}
    for i, name in enumerate(asg['allocs']):
        a = root
        for part in _re.split('[/:]', name):
            a = a.get_sub_alloc(part)
        objs[id(a)] = i
    # the table as loaded: replay the additions for the model, in load order
    for i, name in enumerate(asg['allocs']):
        for e in asg['entries']:
            if e[0] != i:
                continue
            pat = e[1]
            full = pat + '[#]' + ('[0-9]' * 10)
            key = ldr_mod._alloc_key(full)  # pylint: disable=protected-access
            if '[' in pat:
                run.op('aadd %s %d %d' % (_enc_str(pat), e[2], i), 'unsupported')
                run.tags.add('asg-unsupported-pattern')
                return       # the model's table is now incomplete: stop comparing assignments
            run.op('aadd %s %d %d' % (_enc_str(pat), e[2], i), 'key=%s' % _enc_str(key))

    def target(prio, alloc):
        if id(alloc) in objs:
            return 'prio=%d target=a%d' % (prio, objs[id(alloc)])
        assert alloc.path[0] == '_default', alloc.path
        return 'prio=%d target=d%s' % (prio, _enc_str(alloc.path[1]))

    def monitor(name, prio, alloc, site):
        """first matching pattern of the key, else default tenant allocation with priority 1"""
        key = ldr_mod._alloc_key(name)  # pylint: disable=protected-access
        import fnmatch
        exp = None
        for i, aname_ in enumerate(asg['allocs']):
            for e in asg['entries']:
                if e[0] != i:
                    continue
                full = e[1] + '[#]' + ('[0-9]' * 10)
                if ldr_mod._alloc_key(full) == key and exp is None and \
                        _re.match(fnmatch.translate(full), name):  # pylint: disable=protected-access
                    exp = (e[2], i)
        if exp is not None:
            if (prio, objs.get(id(alloc))) != exp:
                run.hits.append(fw.Hit(clause='assignment-first-match', call_site=site,
                                       detail='%r -> %r, first matching pattern says %r' % (name, (prio, alloc.path), exp)))
        else:
            if prio != 1 or alloc.path != ['_default', name.split('.', 1)[0]]:
                run.hits.append(fw.Hit(clause='assignment-default', call_site=site,
                                       detail='%r -> %r, expected default tenant with priority 1' % (name, (prio, alloc.path))))

    for name in asg['finds']:
        line = 'afind %s' % _enc_str(name)
        try:
            prio, alloc = ldr.find_assignment(name)
        except ValueError:
            run.op(line, 'error')
            run.tags.add('asg-valueerror')
            continue
        run.op(line, target(prio, alloc))
        run.tags.add('asg-assigned' if id(alloc) in objs else 'asg-default')
        monitor(name, prio, alloc, 'Loader.find_assignment')
    for name, mp in asg['loads']:
        manifest = {'memory': '10M', 'cpu': '10%', 'disk': '10M', 'affinity': 'x'}
        if mp is not None:
            manifest['priority'] = mp
        backend.data[z.path.scheduled(name)] = manifest
        ldr.load_app(name)
        app = ldr.cell.apps[name]
        run.op('aload %s %s' % (_enc_str(name), 'none' if mp is None else mp), target(app.priority, app.allocation))
        fprio, falloc = ldr.find_assignment(name)
        want = mp if mp is not None and mp != -1 else fprio
        if app.priority != want or app.allocation is not falloc:
            run.hits.append(fw.Hit(clause='load-priority', call_site='Loader.load_app',
                                   detail='%r manifest priority %r assignment %r -> %r' % (name, mp, fprio, app.priority)))
        run.tags.add('asg-manifest-prio' if want == mp else 'asg-assignment-prio')


def cmp(exp, got):
    """`typeerror` (heapq.merge had to compare two Application objects) is allowed exactly when the
    model reports a full tie of the comparable components somewhere (`tie=1`)."""
    g = dict(kv.split('=', 1) for kv in got.split(' ') if '=' in kv)
    if exp == 'typeerror':
        return g.get('tie') == '1'
    e = dict(kv.split('=', 1) for kv in exp.split(' ') if '=' in kv)
    if not e:
        return exp == got
    if g.get('nan') == '1':
        return False
    for k in e:
        if g.get(k) != e[k]:
            return False
    return True
