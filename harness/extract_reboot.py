"""Extractor for the `reboot` engine (C03, lease clause: where `Server.valid_until` comes from)
-> lean/TmVerif/Gen/ExtReboot.lean.

Data the model is parameterised by: `scheduler.DEFAULT_SERVER_UPTIME`, `scheduler.MIN_SERVER_UPTIME` (seconds) and
the default reboot schedule of `Partition.__init__` (every weekday at 23:59:59), read from the AST of the constructor.
"""
import ast
import importlib
import inspect
import textwrap


def sec_uptime(emit):
    sch = importlib.import_module('treadmill.scheduler')
    up = sch.DEFAULT_SERVER_UPTIME
    mn = sch.MIN_SERVER_UPTIME
    assert up == int(up) and mn == int(mn)
    emit('/-- `scheduler.DEFAULT_SERVER_UPTIME` (seconds). -/')
    emit('def defaultUptime : Int := %d' % int(up))
    emit('/-- `scheduler.MIN_SERVER_UPTIME` (seconds). -/')
    emit('def minUptime : Int := %d' % int(mn))


def sec_default_schedule(emit):
    sch = importlib.import_module('treadmill.scheduler')
    src = textwrap.dedent(inspect.getsource(sch.Partition.__init__))
    tree = ast.parse(src)
    found = None
    for node in ast.walk(tree):
        # reboot_schedule = {day: (h, m, s) for day in range(n)}
        if isinstance(node, ast.Assign) and isinstance(node.value, ast.DictComp):
            tgt = node.targets[0]
            if isinstance(tgt, ast.Name) and tgt.id == 'reboot_schedule':
                comp = node.value
                hms = ast.literal_eval(comp.value)
                it = comp.generators[0].iter
                assert isinstance(it, ast.Call) and it.func.id == 'range' and len(it.args) == 1
                n = ast.literal_eval(it.args[0])
                assert isinstance(comp.key, ast.Name) and comp.key.id == comp.generators[0].target.id
                found = (n, hms)
    assert found, 'default reboot schedule not found in Partition.__init__'
    n, (h, m, s) = found
    sec = h * 3600 + m * 60 + s
    emit('/-- default `reboot_schedule` of `Partition.__init__`: weekdays `0 .. n-1`, each at `h:m:s` (second of the day). -/')
    emit('def defaultScheduleDays : Nat := %d' % n)
    emit('def defaultScheduleSecond : Int := %d' % sec)


SECTIONS = [sec_uptime, sec_default_schedule]
