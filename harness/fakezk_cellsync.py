"""Small in-memory kazoo stand-in for the `cellsync` engine (C19, extra engine).

A tree of znodes (bytes content, children in creation order, per-parent sequence counter) with the
subset of KazooClient / treadmill.zkutils.ZkClient that `cellsync`, `zkutils.put` / `ensure_deleted` /
`ensure_exists` and `masterapi.update_allocations` / `create_event` use: create (makepath, sequence,
ephemeral and acl accepted), set, set_acls, get, exists, delete, get_children, ensure_path,
make_default_acl, make_servers_acl, make_host_acl; NoNodeError / NodeExistsError / NotEmptyError are kazoo's own.
Every applied state change is logged as (kind, path), kind in create / set / delete.
"""
import kazoo.exceptions


class _Node:
    __slots__ = ('data', 'children', 'seq')

    def __init__(self, data=b''):
        self.data = data
        self.children = {}
        self.seq = 0


def _split(path):
    if not path.startswith('/') or '//' in path or (len(path) > 1 and path.endswith('/')):
        raise ValueError('bad path %r' % (path,))
    return [c for c in path.split('/') if c]


class FakeZk:
    def __init__(self):
        self.root = _Node()
        self.log = []

    # ---- harness side ----------------------------------------------------------------------
    def node(self, path):
        n = self.root
        for c in _split(path):
            n = n.children.get(c)
            if n is None:
                return None
        return n

    def dump(self, path):
        """None if the directory is missing, else sorted [(name, content)] of its children."""
        n = self.node(path)
        if n is None:
            return None
        return sorted((k, v.data) for k, v in n.children.items())

    def force(self, path, data):
        """Create or overwrite a node (parents made), not logged."""
        n = self.root
        for c in _split(path):
            n = n.children.setdefault(c, _Node())
        n.data = data

    def remove(self, path):
        """Remove a node with everything below, not logged."""
        comps = _split(path)
        n = self.root
        for c in comps[:-1]:
            n = n.children.get(c)
            if n is None:
                return
        n.children.pop(comps[-1], None)

    # ---- ZkClient / kazoo API ----------------------------------------------------------------
    def make_default_acl(self, acls):
        return list(acls) if acls else ['default']

    def make_servers_acl(self):
        return 'servers'

    def make_host_acl(self, host, perm):
        return 'host:%s:%s' % (host, perm)

    def get_children(self, path, watch=None, include_data=False):
        n = self.node(path)
        if n is None:
            raise kazoo.exceptions.NoNodeError(path)
        return list(n.children)

    def exists(self, path, watch=None):
        return self.node(path) is not None or None

    def get(self, path, watch=None):
        n = self.node(path)
        if n is None:
            raise kazoo.exceptions.NoNodeError(path)
        return n.data, None

    def create(self, path, value=b'', acl=None, ephemeral=False, sequence=False, makepath=False,
               include_data=False):
        if value is None:
            value = b''
        if not isinstance(value, bytes):
            raise TypeError('value must be a byte string')
        comps = _split(path)
        comps, last = comps[:-1], comps[-1]
        parent = self.root
        walked = ''
        for c in comps:
            walked += '/' + c
            nxt = parent.children.get(c)
            if nxt is None:
                if not makepath:
                    raise kazoo.exceptions.NoNodeError(walked)
                nxt = _Node()
                parent.children[c] = nxt
                self.log.append(('create', walked))
            parent = nxt
        if sequence:
            last = '%s%010d' % (last, parent.seq)
        full = walked + '/' + last
        if last in parent.children:
            raise kazoo.exceptions.NodeExistsError(full)
        if sequence:
            parent.seq += 1
        parent.children[last] = _Node(value)
        self.log.append(('create', full))
        return full

    def ensure_path(self, path, acl=None):
        n = self.root
        walked = ''
        for c in _split(path):
            walked += '/' + c
            nxt = n.children.get(c)
            if nxt is None:
                nxt = _Node()
                n.children[c] = nxt
                self.log.append(('create', walked))
            n = nxt
        return True

    def set(self, path, value, version=-1):
        if not isinstance(value, bytes):
            raise TypeError('value must be a byte string')
        n = self.node(path)
        if n is None:
            raise kazoo.exceptions.NoNodeError(path)
        n.data = value
        self.log.append(('set', path))

    def set_acls(self, path, acls, version=-1):
        if self.node(path) is None:
            raise kazoo.exceptions.NoNodeError(path)

    def delete(self, path, version=-1, recursive=False):
        comps = _split(path)
        parent = self.root
        for c in comps[:-1]:
            parent = parent.children.get(c)
            if parent is None:
                raise kazoo.exceptions.NoNodeError(path)
        n = parent.children.get(comps[-1]) if comps else None
        if n is None:
            raise kazoo.exceptions.NoNodeError(path)
        if recursive:
            for child in list(n.children):
                self.delete(path + '/' + child, recursive=True)
        if n.children:
            raise kazoo.exceptions.NotEmptyError(path)
        del parent.children[comps[-1]]
        self.log.append(('delete', path))
        return True
