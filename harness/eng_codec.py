"""Engine `codec` (C15): Treadmill's real encoders/decoders vs the Lean models in TmVerif.Codec.

Case = {'codec': <name>, 'items': [item, ...]}; every item is one value (or one malformed input)
that goes through the REAL encoder/decoder (observation lines for the model) and, when it is in
the property's quantifier (`'wf': True`), through the monitor:
    decode(encode x) == x          on the real code, and
    no two distinct values of the batch share an encoding.
Strings travel to the Lean driver as '.'-joined hexadecimal code points ('-' = empty).

codecs:  uid      base-N, gen_uniqueid, _fmt_unique_name / app_name / app_unique_id
         rule     RuleMgr._filenameify / get_rule (+ each of the three regexes on malformed names)
         event    <Class>.to_data / from_data, trace.{app,server}.zk.publish / TraceLoop._process_events
         payload  zkutils.put (-> _payload) / get_with_metadata
         ldap     Application / CellAllocation / Partition .to_entry / _remove_empty / .from_entry;
                  the update path: the REAL LdapObject.update / Admin.update / Admin.remove over an in-memory
                  directory behind the ldap3 connection interface (`_MemConn`, the assumed directory behaviour =
                  `fetch` / `applyMods` of TmVerif/Codec/LdapUpdate.lean); per call the attributes read, the entry
                  returned, the modify request sent and the entry stored afterwards are compared with the model
                  (lines ldapkeys / ldapfetch / ldapdiff / ldapapply / ldapupd / ldapobjupd / ldaprm); two
                  independent monitors of the update law (object level through from_entry, entry level as sets)
"""
import collections
import json
import string

import os

import mock

import fw

NAME = 'codec'
DRIVER = 'Codec'
CASES = {'quick': 800, 'thorough': 8000, 'search': 2000}
RULE = {
    'C15': 'batches of 20-40 structured values per case for one codec (uid | rule | event | payload | ldap), '
           'mostly well-formed plus a malformed stream; every value goes through the real encoder and decoder '
           'and through the Lean model; non-trivial item = contains a separator-adjacent character, a boundary '
           'number, an empty/omitted optional field or a keyed list of >= 2 entries; a case is NON-TRIVIAL when '
           'it has >= 5 such items and >= 1 near-collision pair (values differing only around a separator); '
           'distinct = distinct case hash; every ldap case also carries 3-7 updates of a stored entry through the real '
           'Admin.update (partial objects: fields unchanged / changed / None / [] / new, keyed lists grown, shrunk, '
           'altered, reordered; raw entries: names differing in case, option variants, values permuted, repeated, '
           'same length with every new value among the old ones and vice versa, [] for present and absent attributes, '
           'updates that change nothing), each tied to the Lean model of the update path',
}

CODECS = ['uid', 'rule', 'event', 'payload', 'ldap']
WEIGHTS = {'uid': 1, 'rule': 1, 'event': 1, 'payload': 1, 'ldap': 1.5}


def H(s):
    """str -> driver token"""
    return '.'.join('%x' % ord(c) for c in s) or '-'


def canon(o):
    return json.dumps(o, sort_keys=True, separators=(',', ':'), default=str)


def exc_name(exc):
    if isinstance(exc, ZeroDivisionError):
        return 'err zerodiv'
    if isinstance(exc, IndexError):
        return 'err index'
    if isinstance(exc, ValueError):
        return 'err value'
    if isinstance(exc, KeyError):
        return 'err key'
    if isinstance(exc, TypeError):
        return 'err type'
    if isinstance(exc, AssertionError):
        return 'err assert'
    return 'err other:%s' % type(exc).__name__


class Batch:
    """Per-case monitor state: encoding -> value, to detect two distinct values sharing one."""

    def __init__(self, run):
        self.run = run
        self.seen = {}
        self.nt = 0
        self.near = 0
        self.updates = 0            # calls of the real Admin.update tied to the model

    def hit(self, clause, site, detail):
        self.run.hits.append(fw.Hit(clause=clause, call_site=site, detail=str(detail)[:600]))

    def inj(self, space, site, encoding, value):
        key = (space, canon(encoding))
        v = canon(value)
        old = self.seen.setdefault(key, v)
        if old != v:
            self.hit('%s-collision' % space, site, 'encoding %r shared by %s and %s' % (encoding, old, v))


# ======================================================================================
# codec 1: base-N and container unique names
# ======================================================================================

UID_ALPHA = string.digits + string.ascii_lowercase + string.ascii_uppercase
APP_CHARS = string.ascii_letters + string.digits + '._-'


def _boundary_nums(rng, base):
    k = rng.randint(0, 14)
    return max(0, base ** k + rng.choice([-2, -1, 0, 1, 2]))


def gen_uid(rng, tier):
    items = []
    n = rng.randint(20, 40)
    base_app = ''.join(rng.choice(APP_CHARS) for _ in range(rng.randint(1, 6)))
    while len(items) < n:
        r = rng.random()
        if r < 0.22:
            a = rng.choice(['d', 'd', 'u', 'u', 'c'])
            alpha = {'d': 'd', 'u': 'u', 'c': ''.join(rng.sample(APP_CHARS, rng.randint(2, 20)))}[a]
            ln = {'d': 36, 'u': 62}.get(alpha, len(alpha))
            base = None if rng.random() < 0.6 else rng.randint(2, ln)
            b = base or ln
            x = rng.random()
            if x < 0.35:
                num = _boundary_nums(rng, b)
            elif x < 0.5:
                num = rng.randrange(0, 70)
            elif x < 0.6:
                num = (1 << 77) - 1 - rng.randrange(0, 3)
            else:
                num = rng.getrandbits(rng.choice([8, 16, 31, 33, 64, 77, 90, 128]))
            items.append({'k': 'basen', 'alpha': alpha, 'base': base, 'n': num, 'wf': True})
        elif r < 0.28:
            # malformed: base out of range / zero, undecodable strings
            alpha = rng.choice(['d', 'u', 'ab', 'xyz0'])
            ln = {'d': 36, 'u': 62}.get(alpha, len(alpha))
            kind = rng.choice(['bigbase', 'zero', 'zero0', 'badstr', 'empty'])
            if kind == 'bigbase':
                items.append({'k': 'basen', 'alpha': alpha, 'base': ln + rng.randint(1, 3), 'n': rng.randrange(100), 'wf': False})
            elif kind == 'zero':
                items.append({'k': 'basen', 'alpha': alpha, 'base': 0, 'n': rng.randint(1, 99), 'wf': False})
            elif kind == 'zero0':
                items.append({'k': 'basen', 'alpha': alpha, 'base': rng.choice([0, 1]), 'n': 0, 'wf': False})
            elif kind == 'badstr':
                s = ''.join(rng.choice('0aZz-# 9') for _ in range(rng.randint(1, 5)))
                items.append({'k': 'fromb', 'alpha': alpha, 'base': None, 's': s, 'wf': False})
            else:
                items.append({'k': 'fromb', 'alpha': alpha, 'base': None, 's': '', 'wf': False})
        elif r < 0.55:
            x = rng.random()
            if x < 0.3:
                # drive the seed over the top of the 77-bit range
                seed = (1 << 77) - 1 - rng.getrandbits(rng.choice([0, 3, 20, 70]))
                ino = seed & ((1 << 64) - 1)
                cus = (seed >> 64) + (rng.getrandbits(30) << 13)
                inst = 0
            elif x < 0.45:
                seed = rng.choice([0, 1, 61, 62, 63, 62 ** 12 - 1, 62 ** 12, 62 ** 12 + 1])
                ino = seed & ((1 << 64) - 1)
                cus = (seed >> 64) + (rng.getrandbits(30) << 13)
                inst = 0
            else:
                ino = rng.getrandbits(rng.choice([16, 32, 64]))
                cus = rng.randrange(10 ** 15, 2 * 10 ** 15)
                inst = rng.randrange(0, 10 ** 10)
            items.append({'k': 'uid', 'cus': cus, 'ino': ino, 'inst': inst,
                          'app': rng.choice([base_app, 'proid.app']), 'wf': True})
        elif r < 0.9:
            x = rng.random()
            if x < 0.5:
                app = base_app + rng.choice(['', '-', '.', '_', '-1', '-0000000001', '.x-y', '--', '-a-'])
            else:
                app = ''.join(rng.choice(APP_CHARS) for _ in range(rng.randint(1, 12)))
            num = '%010d' % rng.choice([0, 1, 2, rng.randrange(10 ** 10)])
            if rng.random() < 0.15:
                num = str(rng.randrange(1000))
            uid = ''.join(rng.choice(UID_ALPHA) for _ in range(13))
            if rng.random() < 0.3:
                uid = '0' * rng.randint(1, 12) + uid[:1]
                uid = uid.rjust(13, '0')
            items.append({'k': 'name', 'app': app, 'num': num, 'uid': uid, 'wf': True})
        else:
            kind = rng.choice(['hashapp', 'dashuid', 'shortuid', 'longuid', 'dashnum', 'raw', 'raw'])
            app = base_app + rng.choice(['', '-x'])
            num = '%010d' % rng.randrange(100)
            uid = ''.join(rng.choice(UID_ALPHA) for _ in range(13))
            if kind == 'hashapp':
                app = app + '#' + rng.choice(['', 'z', '1'])
            elif kind == 'dashuid':
                uid = uid[:5] + '-' + uid[6:]
            elif kind == 'shortuid':
                uid = uid[:rng.randint(0, 12)]
            elif kind == 'longuid':
                uid = uid + 'x' * rng.randint(1, 3)
            elif kind == 'dashnum':
                num = '1-2'
            if kind == 'raw':
                s = ''.join(rng.choice('ab-#.0') for _ in range(rng.randint(0, 8)))
                items.append({'k': 'rawname', 's': s, 'wf': False})
            else:
                items.append({'k': 'name', 'app': app, 'num': num, 'uid': uid, 'wf': False})
    return items


def _alpha(tok):
    from treadmill import utils
    if tok == 'd':
        return None, 'd', utils._DEFAULT_BASE_ALPHABET   # pylint: disable=protected-access
    if tok == 'u':
        return UID_ALPHA, 'u', UID_ALPHA
    return tok, H(tok), tok


def run_uid(items, run, mon):
    from treadmill import utils
    from treadmill import appcfg
    import os as _os

    for it in items:
        k = it['k']
        if k == 'basen':
            arg, tok, alpha = _alpha(it['alpha'])
            base, n = it['base'], it['n']
            if base == 1 and n != 0:
                continue    # Python loops forever
            btok = '-' if base is None else str(base)
            kw = {}
            if arg is not None:
                kw['alphabet'] = arg
            if base is not None:
                kw['base'] = base
            try:
                enc = utils.to_base_n(n, **kw)
                obs = 'ok ' + H(enc)
            except Exception as exc:  # pylint: disable=broad-except
                enc = None
                obs = exc_name(exc)
            run.op('tob %s %s %d' % (tok, btok, n), obs)
            run.tags.add('basen')
            if enc is not None:
                try:
                    dec = utils.from_base_n(enc, **kw)
                    obs = 'ok %d' % dec
                except Exception as exc:  # pylint: disable=broad-except
                    dec = None
                    obs = exc_name(exc)
                run.op('fromb %s %s %s' % (tok, btok, H(enc)), obs)
                if it['wf']:
                    b = base or len(alpha)
                    if dec != n:
                        mon.hit('basen-roundtrip', 'utils.from_base_n', 'n=%d base=%s enc=%r dec=%r' % (n, b, enc, dec))
                    mon.inj('basen:%s:%s' % (tok, b), 'utils.to_base_n', enc, n)
                    if n == 0 or any(abs(n - b ** j) <= 2 for j in range(1, 15)) or n >= (1 << 77) - 3:
                        mon.nt += 1
            else:
                run.tags.add('basen-error')
        elif k == 'fromb':
            arg, tok, alpha = _alpha(it['alpha'])
            kw = {'alphabet': arg} if arg is not None else {}
            try:
                obs = 'ok %d' % utils.from_base_n(it['s'], **kw)
            except Exception as exc:  # pylint: disable=broad-except
                obs = exc_name(exc)
            run.op('fromb %s - %s' % (tok, H(it['s'])), obs)
            run.tags.add('fromb-malformed')
        elif k == 'uid':
            name = '%s#%010d' % (it['app'], it['inst'])
            path = '/nonexistent/tmverif/' + name
            st_ctime = it['cus'] / 1e6
            real_stat = _os.stat

            def fake_stat(p, *a, _path=path, _ct=st_ctime, _ino=it['ino'], **kw):
                if p == _path:
                    return mock.Mock(st_ctime=_ct, st_ino=_ino)
                return real_stat(p, *a, **kw)
            with mock.patch('os.stat', fake_stat):
                uid = appcfg.gen_uniqueid(path)
                uname = appcfg.eventfile_unique_name(path)
            ctime_us = int(st_ctime * 10 ** 6)       # the float product gen_uniqueid computes (recorded)
            run.op('uid %d %d %d' % (ctime_us, it['ino'], it['inst']), 'ok ' + H(uid))
            run.op('evname %s %d %d %d' % (H(name), ctime_us, it['ino'], it['inst']), 'ok ' + H(uname))
            run.op('appname %s' % H(uname), H(appcfg.app_name(uname)))
            run.tags.add('uid')
            # ---- monitor: 13 chars of [0-9a-zA-Z]; injective in, and decodable to, the 77-bit seed
            seed = ((ctime_us << 64) + ((it['ino'] ^ (it['inst'] << 31)) & (2 ** 64 - 1))) & (2 ** 77 - 1)
            if len(uid) != 13 or any(c not in UID_ALPHA for c in uid):
                mon.hit('uid-shape', 'appcfg.gen_uniqueid', 'seed=%d uid=%r' % (seed, uid))
            else:
                if utils.from_base_n(uid, base=62, alphabet=UID_ALPHA) != seed:
                    mon.hit('uid-roundtrip', 'appcfg.gen_uniqueid', 'seed=%d uid=%r' % (seed, uid))
            mon.inj('uid', 'appcfg.gen_uniqueid', uid, seed)
            if appcfg.app_name(uname) != name or appcfg.app_unique_id(uname) != uid:
                mon.hit('name-roundtrip', 'appcfg.eventfile_unique_name', '%r -> %r' % (name, uname))
            if seed >= (1 << 77) - (1 << 70) or seed < 62 ** 12 + 2:
                mon.nt += 1
        elif k == 'name':
            inst = it['app'] + '#' + it['num']
            uname = appcfg._fmt_unique_name(inst, it['uid'])   # pylint: disable=protected-access
            run.op('fmt %s %s' % (H(inst), H(it['uid'])), H(uname))
            back = appcfg.app_name(uname)
            run.op('appname %s' % H(uname), H(back))
            try:
                buid = appcfg.app_unique_id(uname)
                obs = 'ok ' + H(buid)
            except Exception as exc:  # pylint: disable=broad-except
                buid = None
                obs = exc_name(exc)
            run.op('appuid %s' % H(uname), obs)
            run.tags.add('name' if it['wf'] else 'name-malformed')
            if it['wf']:
                if back != inst or buid != it['uid']:
                    mon.hit('name-roundtrip', 'appcfg.app_name', '%r,%r -> %r -> %r,%r' % (inst, it['uid'], uname, back, buid))
                mon.inj('name', 'appcfg._fmt_unique_name', uname, [inst, it['uid']])
                if '-' in it['app']:
                    mon.nt += 1
                    if it['app'].rsplit('-', 1)[1].isdigit():
                        mon.near += 1
        elif k == 'rawname':
            s = it['s']
            run.op('appname %s' % H(s), H(appcfg.app_name(s)))
            try:
                obs = 'ok ' + H(appcfg.app_unique_id(s))
            except Exception as exc:  # pylint: disable=broad-except
                obs = exc_name(exc)
            run.op('appuid %s' % H(s), obs)
            run.tags.add('name-raw')



# ======================================================================================
# codec 2: firewall rules as rule-file names
# ======================================================================================

WORD = string.ascii_letters + string.digits + '_'
CHAINS = ['TM_PASSTHROUGH', 'TM_PREROUTING_DNAT', 'TM_POSTROUTING_SNAT', 'TM_PREROUTING_VRING', 'TM_POSTROUTING_VRING']
PORTS = [0, 0, 1, 9, 10, 80, 443, 8080, 9999, 10000, 32768, 65535, 65536, 99999]
WILD = ['@default', '@none', '@const']


def _quad(rng):
    def grp():
        x = rng.random()
        if x < 0.5:
            return str(rng.randrange(256))
        if x < 0.7:
            return rng.choice(['0', '00', '000', '1', '01', '001', '255', '999'])
        return ''.join(rng.choice(string.digits) for _ in range(rng.randint(1, 3)))
    return '.'.join(grp() for _ in range(4))


def _chain(rng):
    x = rng.random()
    if x < 0.5:
        return rng.choice(CHAINS)
    ln = rng.choice([2, 2, 3, 8, 31, 32, 32])
    return ''.join(rng.choice(WORD) for _ in range(ln))


def _port(rng):
    return rng.choice(PORTS) if rng.random() < 0.6 else rng.randrange(100000)


def _nat(rng):
    return {'k': 'rule', 'kind': rng.choice(['dnat', 'snat']), 'chain': _chain(rng), 'proto': rng.choice(['tcp', 'udp']),
            'sip': rng.choice(WILD) if rng.random() < 0.5 else _quad(rng), 'sport': _port(rng),
            'dip': rng.choice(WILD) if rng.random() < 0.5 else _quad(rng), 'dport': _port(rng),
            'nip': _quad(rng), 'nport': _port(rng), 'wf': True}


def _mutate_name(rng, name):
    x = rng.random()
    pos = rng.randrange(len(name) + 1) if name else 0
    ch = rng.choice(':-.*\n 0aA_/5')
    if x < 0.25:
        return name[:pos] + ch + name[pos:]
    if x < 0.5 and name:
        pos = rng.randrange(len(name))
        return name[:pos] + name[pos + 1:]
    if x < 0.75 and name:
        pos = rng.randrange(len(name))
        return name[:pos] + ch + name[pos + 1:]
    return name + rng.choice(['\n', '\n\n', ' ', ':', '\n:', '0', '00000'])


def gen_rule(rng, tier):
    items = []
    n = rng.randint(20, 40)
    base = _nat(rng)
    while len(items) < n:
        r = rng.random()
        if r < 0.3:
            items.append(_nat(rng))
        elif r < 0.55:
            # near-collision: the base rule with ONE field changed
            it = dict(base)
            f = rng.choice(['kind', 'chain', 'proto', 'sip', 'sport', 'dip', 'dport', 'nip', 'nport'])
            if f == 'kind':
                it['kind'] = 'snat' if base['kind'] == 'dnat' else 'dnat'
            elif f == 'chain':
                it['chain'] = base['chain'][:31] + rng.choice(WORD)
            elif f == 'proto':
                it['proto'] = 'udp' if base['proto'] == 'tcp' else 'tcp'
            elif f in ('sip', 'dip'):
                it[f] = rng.choice(WILD + [_quad(rng), '0.0.0.0'])
            elif f == 'nip':
                it[f] = _quad(rng)
            else:
                it[f] = _port(rng)
            it['near'] = True
            items.append(it)
        elif r < 0.7:
            items.append({'k': 'rule', 'kind': 'pass', 'chain': _chain(rng), 'src': _quad(rng), 'dst': _quad(rng), 'wf': True})
        elif r < 0.8:
            # outside the quantifier: correspondence only
            it = _nat(rng)
            it['wf'] = False
            kind = rng.choice(['chain1', 'chain33', 'chaindash', 'proto', 'port6', 'ip3', 'ip5', 'ip4digits', 'ipstar', 'value'])
            if kind == 'chain1':
                it['chain'] = rng.choice(WORD)
            elif kind == 'chain33':
                it['chain'] = 'c' * 33
            elif kind == 'chaindash':
                it['chain'] = rng.choice(['TM-X', 'a:b', 'a b', 'TM.X', ''])
            elif kind == 'proto':
                it['proto'] = rng.choice(['icmp', 'TCP', '', 'tcpp', 'tc'])
            elif kind == 'port6':
                it[rng.choice(['sport', 'dport', 'nport'])] = rng.choice([100000, 123456, 1000000])
            elif kind == 'ip3':
                it[rng.choice(['sip', 'dip', 'nip'])] = '1.2.3'
            elif kind == 'ip5':
                it[rng.choice(['sip', 'dip', 'nip'])] = '1.2.3.4.5'
            elif kind == 'ip4digits':
                it[rng.choice(['sip', 'dip', 'nip'])] = rng.choice(['1234.1.1.1', '1..1.1', '1.1.1.', 'a.b.c.d', '1.2.3.4-5.6.7.8'])
            elif kind == 'ipstar':
                it['nip'] = '*'
            else:
                it[rng.choice(['sip', 'dip'])] = '@value'
                it['byvalue'] = True
            items.append(it)
        else:
            src = rng.choice([i for i in items if i['k'] == 'rule'] or [base])
            items.append({'k': 'rname', 'from': src, 'muts': [rng.getrandbits(32) for _ in range(rng.randint(1, 2))], 'wf': False})
    return items


def _mk_rule(it):
    from treadmill import firewall
    if it['kind'] == 'pass':
        return firewall.PassThroughRule(src_ip=it['src'], dst_ip=it['dst'])
    kw = {}
    for f in ('sip', 'dip'):
        v = it[f]
        name = 'src_ip' if f == 'sip' else 'dst_ip'
        if v == '@default':
            pass
        elif v == '@none':
            kw[name] = None
        elif v == '@const':
            kw[name] = firewall.ANY_IP
        elif v == '@value':
            kw[name] = ''.join(list(firewall.ANY_IP))     # equal text, distinct object
            assert kw[name] is not firewall.ANY_IP
        else:
            kw[name] = v
    cls = firewall.DNATRule if it['kind'] == 'dnat' else firewall.SNATRule
    return cls(proto=it['proto'], new_ip=it['nip'], new_port=it['nport'],
               src_port=it['sport'], dst_port=it['dport'], **kw)


def _rule_tokens(chain, rule):
    from treadmill import firewall

    def ip(v):
        return '*' if v is firewall.ANY_IP else H(v)
    if isinstance(rule, firewall.PassThroughRule):
        return 'pass %s %s %s' % (H(chain), H(rule.src_ip), H(rule.dst_ip))
    kind = 'dnat' if isinstance(rule, firewall.DNATRule) else 'snat'
    return '%s %s %s %s %d %s %d %s %d' % (kind, H(chain), H(rule.proto), ip(rule.src_ip), rule.src_port,
                                             ip(rule.dst_ip), rule.dst_port, H(rule.new_ip), rule.new_port)


def _rule_value(chain, rule):
    from treadmill import firewall
    if isinstance(rule, firewall.PassThroughRule):
        return [chain, 'pass', rule.src_ip, rule.dst_ip]
    return [chain, type(rule).__name__, rule.proto, rule.src_ip, rule.src_port, rule.dst_ip, rule.dst_port,
            rule.new_ip, rule.new_port]


def _rdec(run, name):
    import random as _random
    from treadmill import rulefile
    m = ''.join('1' if rx.match(name) else '0' for rx in
                (rulefile._DNAT_FILE_RE, rulefile._SNAT_FILE_RE, rulefile._PASSTHROUGH_FILE_RE))  # pylint: disable=protected-access
    res = rulefile.RuleMgr.get_rule(name)
    run.op('rdec %s' % H(name), 'm=%s %s' % (m, 'none' if res is None else _rule_tokens(*res)))
    del _random
    return res


def run_rule(items, run, mon):
    import random as _random
    from treadmill import rulefile
    for it in items:
        if it['k'] == 'rule':
            rule = _mk_rule(it)
            chain = it['chain']
            name = rulefile.RuleMgr._filenameify(chain, rule)   # pylint: disable=protected-access
            run.op('renc ' + _rule_tokens(chain, rule), H(name))
            res = _rdec(run, name)
            run.tags.add('rule-' + it['kind'] if it['wf'] else 'rule-outside-wf')
            if it['wf']:
                if res is None or res[0] != chain or not res[1] == rule or type(res[1]) is not type(rule):
                    mon.hit('rule-roundtrip', 'rulefile.RuleMgr.get_rule', '%r %r -> %r -> %r' % (chain, rule, name, res))
                mon.inj('rule', 'rulefile.RuleMgr._filenameify', name, _rule_value(chain, rule))
                if it['kind'] == 'pass' or it['sip'] in WILD or it['dip'] in WILD or \
                        {it['sport'], it['dport'], it['nport']} & {0, 1, 65535, 99999} or len(chain) in (2, 32):
                    mon.nt += 1
                if it.get('near'):
                    mon.near += 1
            elif it.get('byvalue'):
                run.tags.add('rule-wildcard-by-value')
                # the rule IS in the quantifier (a wildcarded address): monitor it (known finding)
                if res is None or res[0] != chain or not res[1] == rule:
                    mon.hit('rule-roundtrip-wildcard-by-value', 'rulefile.RuleMgr._filenameify',
                            '%r %r -> %r -> %r' % (chain, rule, name, res))
        elif it['k'] == 'rname':
            src = it['from']
            name = rulefile.RuleMgr._filenameify(src['chain'], _mk_rule(src))   # pylint: disable=protected-access
            for sd in it['muts']:
                name = _mutate_name(_random.Random(sd), name)
            if all(ord(c) < 128 for c in name):
                _rdec(run, name)
                run.tags.add('rule-name-malformed')
    # ---- the directory as a whole: every rule of the case written through the real RuleMgr.create_rule, read back
    # through the real get_rules() - exactly the rules written come back, each once (judged on the fields and the
    # class of the decoded objects, not on their own notion of equality)
    wf_ = [(it['chain'], _mk_rule(it)) for it in items if it['k'] == 'rule' and it['wf']]
    if wf_:
        import collections as _collections
        import json as _json
        import os as _os
        import shutil as _shutil
        import tempfile as _tempfile
        d_ = _tempfile.mkdtemp(dir='/var/tmp', prefix='tmverif-rules-')
        try:
            _os.makedirs(_os.path.join(d_, 'rules'))
            _os.makedirs(_os.path.join(d_, 'owners'))
            with open(_os.path.join(d_, 'owners', 'o'), 'w'):
                pass
            mgr_ = rulefile.RuleMgr(_os.path.join(d_, 'rules'), _os.path.join(d_, 'owners'))
            want_ = set()
            for chain_, rule_ in wf_:
                mgr_.create_rule(chain_, rule_, 'o')
                want_.add(_json.dumps(_rule_value(chain_, rule_)))
            back_ = list(mgr_.get_rules())
            got_ = _collections.Counter(_json.dumps(_rule_value(c_, r_)) for c_, r_ in back_)
            if set(got_) != want_ or any(v_ != 1 for v_ in got_.values()):
                mon.hit('rule-directory-roundtrip', 'rulefile.RuleMgr.get_rules',
                        'wrote %d distinct rules, get_rules() returned %d: missing %r, unexpected %r' % (
                            len(want_), len(back_), sorted(want_ - set(got_))[:3], sorted(set(got_) - want_)[:3]))
            run.tags.add('rule-directory')
        finally:
            _shutil.rmtree(d_, ignore_errors=True)


# ======================================================================================
# codec 3: trace events and event-node names
# ======================================================================================

EV_FIELDS = {
    'aborted': ['why'], 'configured': ['uniqueid'], 'deleted': [], 'finished': ['rc', 'signal'],
    'killed': ['is_oom'], 'pending': ['why'], 'pending_delete': ['why'], 'scheduled': ['where', 'why'],
    'service_exited': ['uniqueid', 'service', 'rc', 'signal'], 'service_running': ['uniqueid', 'service'],
    'server_state': ['state'], 'server_blackout': [], 'server_blackout_cleared': [],
}
APP_KINDS = ['aborted', 'configured', 'deleted', 'finished', 'killed', 'pending', 'pending_delete', 'scheduled',
             'service_exited', 'service_running']
SRV_KINDS = ['server_state', 'server_blackout', 'server_blackout_cleared']
TEXT = string.ascii_lowercase + string.digits


def _word(rng, lo=1, hi=8, extra=''):
    return ''.join(rng.choice(TEXT + extra) for _ in range(rng.randint(lo, hi)))


def _ev_fields(rng, kind, tricky):
    f = {}
    sepch = '.:-_# ' if tricky else ''
    for name in EV_FIELDS[kind]:
        if name in ('rc', 'signal'):
            f[name] = rng.choice([0, 1, 9, 15, 255, 256, -1, -15, 10 ** 6, rng.randrange(-300, 300)])
        elif name == 'is_oom':
            f[name] = rng.random() < 0.5
        elif name == 'where':
            f[name] = rng.choice(['srv1', 'host-1.example.com', _word(rng, 1, 10, '.-' if tricky else '')])
        elif name == 'uniqueid':
            f[name] = ''.join(rng.choice(UID_ALPHA) for _ in range(13)) if rng.random() < 0.7 else _word(rng, 0, 6, '-_:' if tricky else '')
        elif name == 'service':
            f[name] = rng.choice(['web', 'web.server', 'a.b.c', '', '.', 'x.1.2', '1.2', _word(rng, 0, 8, sepch)])
        elif name == 'why' and kind == 'scheduled':
            f[name] = rng.choice([None, None, '', 'evicted', 'srv2:down', 'srv2:frozen', 'None', ':', 'a:b:c', _word(rng, 0, 8, sepch)])
        else:   # why / state
            f[name] = rng.choice(['', 'created', 'user@realm:created', 'up', 'down', 'frozen', 'a.b:c-d', 'oom', _word(rng, 0, 10, sepch)])
    return f


def _when(rng):
    x = rng.random()
    if x < 0.2:
        return repr(float(rng.randrange(10 ** 9, 2 * 10 ** 9)))
    return repr(rng.randrange(10 ** 9, 2 * 10 ** 9) + rng.randrange(10 ** 6) / 1e6)


def _ev_item(rng, fam=None, tricky=True):
    fam = fam or ('a' if rng.random() < 0.8 else 's')
    kind = rng.choice(APP_KINDS if fam == 'a' else SRV_KINDS)
    obj = ('%s.%s#%010d' % (_word(rng, 1, 5), _word(rng, 1, 6, '.-_'), rng.randrange(10 ** 4))) if fam == 'a' \
        else rng.choice(['srv1', 'host-1.example.com', _word(rng, 1, 8, '.-')])
    return {'k': 'event', 'fam': fam, 'kind': kind, 'f': _ev_fields(rng, kind, tricky), 'obj': obj,
            'when': _when(rng), 'src': rng.choice(['master-1', 'node.example.com', _word(rng, 1, 8, '.-')]), 'wf': True}


def _ev_wf(it):
    f = it['f']
    for name, v in f.items():
        if name in ('rc', 'signal'):
            if not isinstance(v, int) or isinstance(v, bool):
                return False
        elif name == 'is_oom':
            if not isinstance(v, bool):
                return False
        elif v is None:
            if not (name == 'why' and it['kind'] == 'scheduled'):
                return False
        elif ',' in v:
            return False
    if it['kind'] == 'scheduled' and ':' in f['where']:
        return False
    if it['kind'] in ('service_exited', 'service_running') and '.' in f['uniqueid']:
        return False
    return not any(',' in it[x] for x in ('obj', 'when', 'src'))


INTISH = ['1', '0', '-1', '256', '', '-', '--1', '1x', 'x', '-0', '007', '99999999999999999999']


def gen_event(rng, tier):
    items = []
    n = rng.randint(20, 40)
    base = _ev_item(rng, 'a')
    while base['kind'] in ('deleted', 'killed'):
        base = _ev_item(rng, 'a')
    while len(items) < n:
        r = rng.random()
        if r < 0.45:
            it = _ev_item(rng)
            prev = [i for i in items if i['k'] == 'event' and i['fam'] == it['fam']]
            if prev and rng.random() < 0.3:
                # another event of the same instance / server with the very same time stamp
                p_ = rng.choice(prev)
                it['obj'], it['when'] = p_['obj'], p_['when']
                it['wf'] = _ev_wf(it)
            items.append(it)
        elif r < 0.65:
            it = json.loads(json.dumps(base))
            names = EV_FIELDS[it['kind']]
            name = rng.choice(names)
            v = it['f'][name]
            if isinstance(v, int):
                it['f'][name] = v + rng.choice([-1, 1, 10])
            else:
                v = v or ''
                it['f'][name] = rng.choice([v + 'x', v[:-1], v + '.y', v + ':z', 'x' + v, v + '-1', v + '.1', ''])
            it['near'] = True
            it['wf'] = _ev_wf(it)
            items.append(it)
        elif r < 0.8:
            # outside the quantifier
            it = _ev_item(rng)
            kind = it['kind']
            names = [x for x in EV_FIELDS[kind] if x not in ('rc', 'signal', 'is_oom')]
            x = rng.random()
            if names and x < 0.4:
                name = rng.choice(names)
                it['f'][name] = (it['f'][name] or '') + rng.choice([',', ',x', 'a,b'])
            elif names and x < 0.6:
                it['f'][rng.choice(names)] = None
            elif kind == 'scheduled':
                it['f']['where'] = it['f']['where'] + rng.choice([':', ':x', ':None'])
            elif kind in ('service_exited', 'service_running'):
                it['f']['uniqueid'] = it['f']['uniqueid'][:4] + '.' + it['f']['uniqueid'][4:]
            else:
                it['src'] = it['src'] + ',x'
            it['wf'] = _ev_wf(it)
            items.append(it)
        elif r < 0.9:
            fam = rng.choice(['a', 'a', 's'])
            t = rng.choice(APP_KINDS + SRV_KINDS + ['', 'Aborted', 'abort', 'scheduled ', 'pending-delete', 'finish'])
            x = rng.random()
            if x < 0.5:
                d = '.'.join(rng.choice(INTISH + ['u', 'svc']) for _ in range(rng.randint(0, 5)))
            elif x < 0.7:
                d = rng.choice(['oom', 'OOM', 'oom ', '', 'srv:', ':why', 'a:b:c', ':', 'srv'])
            else:
                d = _word(rng, 0, 8, '.:-')
            items.append({'k': 'efrom', 'fam': fam, 't': t, 'd': d, 'wf': False})
        else:
            src = rng.choice([i for i in items if i['k'] == 'event' and ',' not in i['obj']] or [base])
            items.append({'k': 'ename', 'from': src, 'mut': rng.getrandbits(32), 'wf': False})
    return items


def _ev_classes():
    from treadmill.trace.app import events as ae
    from treadmill.trace.server import events as se
    return ae, se


def _mk_event(it, **kw):
    ae, se = _ev_classes()
    if it['fam'] == 'a':
        cls = getattr(ae.AppTraceEventTypes, it['kind']).value
        return cls(instanceid=it['obj'], **dict(it['f'], **kw))
    cls = getattr(se.ServerTraceEventTypes, it['kind']).value
    return cls(servername=it['obj'], **dict(it['f'], **kw))


def _opt(v):
    return '~' if v is None else H(v)


def _body_tokens(ev):
    kind = ev.event_type
    out = [kind]
    for name in EV_FIELDS[kind]:
        v = getattr(ev, name)
        if name in ('rc', 'signal'):
            out.append('%d' % v)
        elif name == 'is_oom':
            out.append('1' if v else '0')
        elif name in ('where', 'service') or (name == 'uniqueid' and kind != 'configured'):
            out.append(H(v))
        else:
            out.append(_opt(v))
    return ' '.join(out)


def _ev_from_data(fam, obj, etype, edata):
    ae, se = _ev_classes()
    if fam == 'a':
        return ae.AppTraceEvent.from_data(timestamp=1.0, source='s', instanceid=obj, event_type=etype, event_data=edata)
    return se.ServerTraceEvent.from_data(timestamp=1.0, source='s', servername=obj, event_type=etype, event_data=edata)


def _canon_float(txt):
    try:
        return repr(float(txt)) == txt
    except ValueError:
        return False


class _Cap:
    def __init__(self):
        self.events = []

    def process(self, event, ctx=None):
        self.events.append(event)


def _ev_decode_name(fam, name):
    """The real reader: TraceLoop._process_events -> _process_event -> from_data -> handler."""
    from treadmill.trace.app import zk as azk
    from treadmill.trace.server import zk as szk
    cap = _Cap()
    cls = azk.AppTraceLoop if fam == 'a' else szk.ServerTraceLoop
    loop = cls(mock.Mock(), name.split(',')[0], cap)
    try:
        loop._process_events([name], None)    # pylint: disable=protected-access
    except ValueError:
        return 'unpack', None
    if not cap.events:
        return 'skipped', None
    ev = cap.events[0]
    obj = ev.instanceid if fam == 'a' else ev.servername
    return 'event %s %s %s %s' % (H(obj), H(repr(ev.timestamp)), H(ev.source), _body_tokens(ev)), ev


def _ev_publish_name(fam, obj, when, src, etype, edata):
    """The real writer: <family>.zk.publish on a recording client; returns the node name."""
    from treadmill.trace.app import zk as azk
    from treadmill.trace.server import zk as szk
    mod = azk if fam == 'a' else szk
    zk = mock.Mock()
    paths = []
    zk.create.side_effect = lambda path, *a, **kw: paths.append(path) or path
    zk.exists.return_value = None
    zk.get_children.return_value = []
    with mock.patch.object(mod, '_HOSTNAME', src):
        mod.publish(zk, when, obj, etype, edata, None)
    root = '/trace/' if fam == 'a' else '/server-trace/'
    nodes = [p for p in paths if p.startswith(root)]
    assert len(nodes) == 1, paths
    return nodes[0].split('/', 3)[3]


def run_event(items, run, mon):
    import random as _random
    published = collections.defaultdict(dict)       # (fam, obj) -> {node name: event}
    try:
        _run_event_items(items, run, mon, published, _random)
    finally:
        pass
    # ---- monitor: the reader dispatches every event of an instance, also when several share a time stamp
    from treadmill.trace.app import zk as azk
    from treadmill.trace.server import zk as szk
    for (fam, obj), names in published.items():
        if len(names) < 2:
            continue
        cap = _Cap()
        cls = azk.AppTraceLoop if fam == 'a' else szk.ServerTraceLoop
        loop = cls(mock.Mock(), obj, cap)
        try:
            loop._process_events(sorted(names), None)                  # pylint: disable=protected-access
        except ValueError:
            continue
        run.tags.add('event-batch')
        if len(cap.events) != len(names):
            mon.hit('event-batch-lost', 'trace._zk.TraceLoop._process_events',
                    '%d events written for %s, %d read back: %r' % (len(names), obj, len(cap.events), sorted(names)))


def _post_check(ev, it, run, mon):
    """`trace.post` (what the node-side code calls): the event file is named after the clock reading at which it
    was posted.  Two postings of the same event a fraction of a millisecond apart are two files, and the time field
    of each name reads back as exactly the clock value (real `trace.post` + `fs.write_safe` on a temp directory,
    `time.time` mocked to readings with microsecond digits)."""
    import shutil
    import tempfile
    from treadmill import trace as tm_trace
    try:
        base = float(it['when'])
    except (TypeError, ValueError):
        return
    if not 0 <= base < 2 ** 31:
        return
    clocks = [int(base) + 0.123456, int(base) + 0.123856]
    tmp = tempfile.mkdtemp(prefix='c15-post-', dir='/dev/shm' if os.access('/dev/shm', os.W_OK) else None)
    try:
        names = []
        for c in clocks:
            with mock.patch('time.time', lambda c=c: c):
                try:
                    tm_trace.post(tmp, ev)
                except Exception:       # pylint: disable=broad-except
                    return              # (an event `post` cannot name: judged by the encoders' own items)
            new = sorted(set(n for n in os.listdir(tmp) if not n.startswith('.')) - set(names))
            if len(new) != 1:
                mon.hit('posted-events-collide', 'trace.post',
                        'posting %r at %r after %r left %r' % (ev, c, clocks[0], sorted(os.listdir(tmp))))
                return
            names.append(new[0])
            try:
                when = float(new[0].split(',', 1)[0])
            except ValueError:
                when = None
            if when != c:
                mon.hit('posted-event-time', 'trace.post', 'posted at %r, the file name says %r (%r)' % (c, when, new[0]))
                return
        run.tags.add('post-checked')
    finally:
        shutil.rmtree(tmp, ignore_errors=True)


def _run_event_items(items, run, mon, published, _random):
    for it in items:
        if it['k'] == 'event':
            fam = it['fam']
            try:
                ev = _mk_event(it)
            except Exception:  # pylint: disable=broad-except
                continue
            _ts, _src, obj, etype, edata, _pl = ev.to_data()
            if not isinstance(edata, str):
                continue
            if any(it['f'][x] is None for x in EV_FIELDS[it['kind']]
                   if x in ('where', 'service') or (x == 'uniqueid' and it['kind'] != 'configured')):
                continue        # the model types these fields as plain strings
            body = _body_tokens(ev)
            run.op('edata ' + body, '%s %s' % (H(etype), H(edata)))
            back = _ev_from_data(fam, obj, etype, edata)
            run.op('efrom %s %s %s' % (fam, H(etype), H(edata)), 'none' if back is None else _body_tokens(back))
            run.tags.add('event:' + it['kind'] if it['wf'] else 'event-outside-wf')
            name = None
            if fam == 's' or ('#' in obj and obj.rsplit('#', 1)[1].isdigit()):
                name = _ev_publish_name(fam, obj, it['when'], it['src'], etype, edata)
                run.op('enode %s %s %s %s' % (H(obj), H(it['when']), H(it['src']), body), H(name))
                dobs, dev = _ev_decode_name(fam, name)
                run.op('edec %s %s' % (fam, H(name)), dobs)
            if it['wf']:
                _post_check(ev, it, run, mon)
                # ---- monitor: from_data(to_data(e)) == e; node name decodes to the same event
                same = _mk_event(it, timestamp=1.0, source='s')
                if back is None or not back == same:
                    mon.hit('event-data-roundtrip', type(ev).__name__ + '.from_data',
                            '%r -> (%r, %r) -> %r' % (same, etype, edata, back))
                mon.inj('event-data:' + fam, type(ev).__name__ + '.to_data', [etype, edata],
                        [etype] + [getattr(ev, x) for x in EV_FIELDS[it['kind']]])
                if name is not None:
                    exp = _mk_event(it, timestamp=float(it['when']), source=it['src'])
                    if dev is None or not dev == exp:
                        mon.hit('event-node-roundtrip', 'trace._zk.TraceLoop._process_events',
                                '%r -> %r -> %r' % (exp, name, dev))
                    mon.inj('event-node:' + fam, 'trace.zk.publish', name,
                            [obj, it['when'], it['src'], etype] + [getattr(ev, x) for x in EV_FIELDS[it['kind']]])
                    if dev is not None and dev == exp:
                        published[(fam, obj)][name] = exp
                vals = [v for v in it['f'].values()]
                if any(v is None or v == '' or (isinstance(v, str) and any(c in v for c in '.:-')) or
                       (isinstance(v, int) and not isinstance(v, bool) and v < 0) for v in vals):
                    mon.nt += 1
                if it.get('near'):
                    mon.near += 1
        elif it['k'] == 'efrom':
            back = _ev_from_data(it['fam'], 'p.a#0000000001' if it['fam'] == 'a' else 'srv', it['t'], it['d'])
            run.op('efrom %s %s %s' % (it['fam'], H(it['t']), H(it['d'])), 'none' if back is None else _body_tokens(back))
            run.tags.add('event-from-malformed')
        elif it['k'] == 'ename':
            src = it['from']
            try:
                ev = _mk_event(src)
                _ts, _src, obj, etype, edata, _pl = ev.to_data()
                name = ','.join([obj, src['when'], src['src'], etype, edata])
            except Exception:  # pylint: disable=broad-except
                continue
            rng = _random.Random(it['mut'])
            x = rng.random()
            parts = name.split(',')
            if x < 0.3:
                parts.pop(rng.randrange(len(parts)))
            elif x < 0.5:
                parts.insert(rng.randrange(len(parts) + 1), rng.choice(['', 'x']))
            elif x < 0.8 and len(parts) >= 5:
                parts[3] = rng.choice(APP_KINDS + SRV_KINDS + ['', 'bogus'])
            elif len(parts) >= 5:
                parts[4] = rng.choice(['', '1.2', 'a.b.1.2', 'oom', 'x:y', '1.2.3'])
            name = ','.join(parts)
            dobs, _dev = _ev_decode_name(src['fam'], name)
            if len(parts) == 5 and not _canon_float(parts[1]):
                # float(timestamp) is Python's float parser, which the model does not contain
                run.op('edec %s %s' % (src['fam'], H(name)), None)
                run.skipped += 1
            else:
                run.op('edec %s %s' % (src['fam'], H(name)), dobs)
            run.tags.add('event-name-malformed')


# ======================================================================================
# codec 4: resource objects as ZooKeeper payloads
# ======================================================================================

KEYS = ['a', 'b', 'ab', 'a.b', 'name', 'cpu', '', ' ', 'a"', 'a\\', 'k\n', 'é', '€', 'A', '_', '0', '10', '9']
STRS = ['', 'x', 'a b', 'q"uote', 'back\\slash', 'nl\nx', 'tab\t', '\x01', '\x7f', 'été', '€', '\U0001f600',
        '1', 'true', 'null', '{}', '[]', '0.5', '/', 'foo.bar#0000000001']


def _jscalar(rng):
    x = rng.random()
    if x < 0.3:
        return rng.choice([0, 1, -1, 2 ** 31, 2 ** 63, -2 ** 63, 10 ** 20, rng.randrange(-1000, 1000)])
    if x < 0.45:
        return rng.choice([True, False, None])
    if x < 0.55:
        return rng.randrange(-10 ** 6, 10 ** 6) / 8.0
    return rng.choice(STRS)


def _jval(rng, depth):
    x = rng.random()
    if depth <= 0 or x < 0.35:
        return _jscalar(rng)
    if x < 0.65:
        return [_jval(rng, depth - 1) for _ in range(rng.choice([0, 1, 2, 3]))]
    return {rng.choice(KEYS): _jval(rng, depth - 1) for _ in range(rng.choice([0, 1, 2, 4]))}


def _jcontainer(rng, depth=3):
    if rng.random() < 0.5:
        return [_jval(rng, depth - 1) for _ in range(rng.choice([0, 1, 2, 3, 5]))]
    return {rng.choice(KEYS): _jval(rng, depth - 1) for _ in range(rng.choice([0, 1, 2, 3, 5]))}


def _near_variants(rng, v):
    """values that differ from v only in a type/shape detail"""
    v = json.loads(json.dumps(v))
    out = []

    def walk(x, path):
        if isinstance(x, dict):
            for k in sorted(x):
                walk(x[k], path + [k])
        elif isinstance(x, list):
            for i, y in enumerate(x):
                walk(y, path + [i])
        out.append(path)
    walk(v, [])
    path = rng.choice(out)
    if not path:
        return [] if isinstance(v, dict) and not v else ({} if v == [] else (v + [None] if isinstance(v, list) else dict(v, **{'zz': None})))
    cur = v
    for p in path[:-1]:
        cur = cur[p]
    old = cur[path[-1]]
    if old is True:
        new = 1
    elif old is False:
        new = 0
    elif old is None:
        new = 'null'
    elif isinstance(old, int):
        new = str(old) if rng.random() < 0.5 else (True if old == 1 else old + 1)
    elif isinstance(old, float):
        new = str(old)
    elif isinstance(old, str):
        new = old + ' '
    elif old == []:
        new = {}
    elif old == {}:
        new = []
    elif isinstance(old, list):
        new = old + [None]
    else:
        new = dict(old, zz=None)
    cur[path[-1]] = new
    return v


RAW_TEXT = ['', ' ', 'abc', 'a: 1', '- 1\n- 2', '{a', '[1, 2', '123', ' 12 ', 'true', 'null', '"x"', "'x'", '{"a": 1}',
            '{"a": 1,}', '[1,]', '01', '-', '-0', '[1 2]', '{"a" 1}', '{"a": 1} x', '[]]', '{"a": 1, "a": 2}',
            '"\\u00e9"', '"\\ud83d\\ude00"', '"\\x"', '"a\nb"', '\t[ 1 ,\n2 ]\r\n', '{ }', '[ ]', '{"b": {"c": []}, "a": null}',
            'key: [unclosed', 'a: b: c', '%bad', '@x', 'x: !!python/object:os.system x']


def gen_payload(rng, tier):
    items = []
    n = rng.randint(15, 30)
    base = _jcontainer(rng)
    while len(items) < n:
        r = rng.random()
        if r < 0.45:
            items.append({'k': 'zval', 'v': _jcontainer(rng), 'wf': True})
        elif r < 0.60:
            items.append({'k': 'zval', 'v': _near_variants(rng, base), 'wf': True, 'near': True})
        elif r < 0.65:
            # a node is written, then written again (put / update with check_content) with a value that differs
            # only in a type / shape detail: what is stored afterwards is the payload of the SECOND value
            v1 = _jcontainer(rng)
            items.append({'k': 'zrewrite', 'v1': v1, 'v2': _near_variants(rng, v1), 'how': rng.choice(['put', 'update']),
                          'wf': True})
        elif r < 0.72:
            items.append({'k': 'zval', 'v': _jscalar(rng), 'wf': False})
        elif r < 0.9:
            t = rng.choice(RAW_TEXT)
            if rng.random() < 0.4:
                t = json.dumps(_jcontainer(rng, 2), sort_keys=True)
                if rng.random() < 0.7 and t and '\\ud' not in t:     # (a mutation could leave a lone surrogate escape: not modelled)
                    pos = rng.randrange(len(t))
                    t = rng.choice([t[:pos] + t[pos + 1:], t[:pos] + rng.choice(' ,]}x"') + t[pos:], t[:pos]])
            items.append({'k': 'zraw', 'text': t, 'as': rng.choice(['str', 'bytes']), 'strict': rng.random() < 0.5, 'wf': False})
        elif r < 0.97:
            b = bytes(rng.getrandbits(8) for _ in range(rng.randint(1, 6)))
            items.append({'k': 'zraw', 'hex': b.hex(), 'as': 'bytes', 'strict': rng.random() < 0.5, 'wf': False})
        else:
            items.append({'k': 'znone', 'wf': False})
    for it in items:
        if it['k'] == 'zval' and it['wf'] and not isinstance(it['v'], (dict, list)):
            it['wf'] = False
    return items


def _jtoks(v):
    if v is None:
        return ['n']
    if v is True:
        return ['t']
    if v is False:
        return ['f']
    if isinstance(v, int):
        return ['i%d' % v]
    if isinstance(v, float):
        return ['d' + H(repr(v))]
    if isinstance(v, str):
        return ['s' + H(v)]
    if isinstance(v, list):
        out = ['a%d' % len(v)]
        for x in v:
            out += _jtoks(x)
        return out
    out = ['o%d' % len(v)]
    for k in sorted(v):
        out += [H(k)] + _jtoks(v[k])
    return out


def _bhex(b):
    return b.hex() or '-'


def _zput(data):
    from treadmill import zkutils
    zk = mock.Mock()
    got = []
    zk.create.side_effect = lambda path, value, **kw: got.append(value) or path
    zkutils.put(zk, '/x', data)
    assert len(got) == 1 and isinstance(got[0], bytes)
    return got[0]


def _render(res):
    try:
        return json.dumps(res, sort_keys=True, default=str)
    except (TypeError, ValueError):
        return repr(res)       # e.g. a YAML mapping with keys of mixed types


def _zget(run, data, strict):
    from treadmill import zkutils
    from treadmill import yamlwrapper as yaml
    zk = mock.Mock()
    zk.get.return_value = (data, mock.Mock())
    try:
        res = zkutils.get_with_metadata(zk, '/x', strict=strict)[0]
        if data is None:
            obs = 'none'
        elif isinstance(res, bytes):
            obs = 'raw ' + _bhex(res)
        else:
            obs = 'res ' + H(_render(res))
        err = False
    except yaml.YAMLError:
        res, obs, err = None, 'error', True
    ytok = 'E'
    if data is not None:
        try:
            ytok = 'V' + H(_render(yaml.load(data)))
        except yaml.YAMLError:
            ytok = 'E'
    run.op('zget %d %s %s' % (1 if strict else 0, 'N' if data is None else _bhex(data), ytok), obs)
    return res, err


def _json_domain(v):
    """string keys only; floats finite"""
    if isinstance(v, dict):
        return all(isinstance(k, str) and _json_domain(x) for k, x in v.items())
    if isinstance(v, list):
        return all(_json_domain(x) for x in v)
    if isinstance(v, float):
        return v == v and v not in (float('inf'), float('-inf'))
    return v is None or isinstance(v, (bool, int, str))


def run_payload(items, run, mon):
    for it in items:
        if it['k'] == 'zval':
            v = it['v']
            data = _zput(v)
            run.op('zput ' + ' '.join(_jtoks(v)), _bhex(data))
            strict = True
            res, err = _zget(run, data, strict)
            run.tags.add('payload-container' if it['wf'] else 'payload-scalar')
            if it['wf'] and isinstance(v, (dict, list)) and _json_domain(v):
                # ---- monitor: get(put(v)) == v (type-exact: canonical JSON text), distinct values distinct payloads
                if err or canon(res) != canon(v) or type(res) is not type(v):
                    mon.hit('payload-roundtrip', 'zkutils.get_with_metadata', '%r -> %r -> %r' % (v, data, res))
                mon.inj('payload', 'zkutils._payload', data.hex(), v)
                txt = canon(v)
                if '\\' in txt or '[]' in txt or '{}' in txt or txt.count('{') + txt.count('[') >= 3:
                    mon.nt += 1
                if it.get('near'):
                    mon.near += 1
        elif it['k'] == 'zrewrite':
            import kazoo.client
            from treadmill import zkutils
            node = {}

            def _create(path, value, **_kw):
                if path in node:
                    raise kazoo.client.NodeExistsError()
                node[path] = value
                return path
            zk = mock.Mock()
            zk.create.side_effect = _create
            zk.get.side_effect = lambda path, *a, **kw: (node[path], mock.Mock())
            zk.set.side_effect = lambda path, value, *a, **kw: node.__setitem__(path, value)
            v1, v2 = it['v1'], it['v2']
            zkutils.put(zk, '/x', v1)
            run.op('zput ' + ' '.join(_jtoks(v1)), _bhex(node['/x']))
            if it['how'] == 'put':
                zkutils.put(zk, '/x', v2, check_content=True)
            else:
                zkutils.update(zk, '/x', v2, check_content=True)
            data = node['/x']
            run.op('zput ' + ' '.join(_jtoks(v2)), _bhex(data))
            res, err = _zget(run, data, True)
            run.tags.add('payload-rewrite')
            if isinstance(v2, (dict, list)) and _json_domain(v2) and _json_domain(v1):
                if err or canon(res) != canon(v2) or type(res) is not type(v2):
                    mon.hit('payload-roundtrip', 'zkutils.%s(check_content)' % it['how'],
                            'stored %r, then wrote %r: reads back %r' % (v1, v2, res))
                mon.nt += 1
        elif it['k'] == 'zraw':
            raw = bytes.fromhex(it['hex']) if 'hex' in it else it['text'].encode()
            arg = raw if it['as'] == 'bytes' or 'hex' in it else it['text']
            data = _zput(arg)
            if isinstance(arg, bytes):
                run.op('zput B' + _bhex(arg), _bhex(data))
            else:
                run.op('zput s' + H(arg), _bhex(data))
            _zget(run, data, it['strict'])
            run.tags.add('payload-raw')
        elif it['k'] == 'znone':
            data = _zput(None)
            run.op('zput n', _bhex(data))
            _zget(run, data, True)
            _zget(run, None, True)
            run.tags.add('payload-none')


# ======================================================================================
# codec 5: admin objects as LDAP entries
# ======================================================================================

LSTR = ['a', 'b', 'x.y', '', 'A', '10', '9', 'foo-bar_1', 'a b', '0', 'false', 'é']
LCLS = {'app': 'Application', 'calloc': 'CellAllocation', 'part': 'Partition'}


def _lcls(name):
    from treadmill.admin import _ldap
    return getattr(_ldap, LCLS[name])


def _lval(rng, ft, nones=True):
    if nones and rng.random() < 0.08:
        return None
    if ft is str:
        return rng.choice(LSTR)
    if ft is int:
        return rng.choice([0, 1, 5, 60, -1, 65535, 10 ** 12, rng.randrange(1000)])
    if ft is bool:
        return rng.random() < 0.5
    if ft is dict:
        return json.loads(json.dumps({rng.choice(KEYS): _jval(rng, 2) for _ in range(rng.choice([0, 1, 2, 3]))}, sort_keys=True))
    if ft == [str]:
        return [rng.choice(LSTR + ([None] if nones else [])) for _ in range(rng.choice([0, 1, 2, 3]))]
    if ft == [int]:
        return [rng.choice([0, 7, 3032, -2] + ([None] if nones else [])) for _ in range(rng.choice([0, 1, 2, 3]))]
    raise ValueError(ft)


def _lflat(rng, schema, p=0.5, skip=(), nones=True):
    o = {}
    for _lf, of, ft in schema:
        if of in skip or rng.random() > p:
            continue
        o[of] = _lval(rng, ft, nones)
    return o


def _lrows(rng, schema, key, names, p=0.6, dup=False):
    rows = []
    names = list(names)
    if dup and names and rng.random() < 0.3:
        # two rows with one key: an endpoint name on two protocols (service names are unique: supervisor
        # directories are named after them)
        names.append(rng.choice(names))
    for nm in names:
        r = _lflat(rng, schema, p, skip=(key,))
        r[key] = nm
        rows.append(r)
    rng.shuffle(rows)
    return rows


def _lnames(rng, big=False):
    n = rng.choice([0, 1, 2, 2, 3, 4] + ([17, 18] if big else []))
    pool = ['web', 'ssh', 'a', 'b', 'B', 'a.b', 'x', '10', '9', 'n1', 'n10', 'n2']
    if n > len(pool):
        pool = pool + ['k%d' % i for i in range(n)]
    return rng.sample(pool, n)


def _lobj(rng, cls):
    C = _lcls(cls)
    if cls == 'app':
        o = _lflat(rng, C._schema, 0.45, skip=('ephemeral_ports_tcp', 'ephemeral_ports_udp'))   # pylint: disable=protected-access
        x = rng.random()
        if x < 0.6:
            o['ephemeral_ports'] = {k: rng.choice([0, 1, 5]) for k in ('tcp', 'udp') if rng.random() < 0.6}
        if rng.random() < 0.75:
            svcs = _lrows(rng, C._svc_schema, 'name', _lnames(rng))   # pylint: disable=protected-access
            for sv in svcs:
                if rng.random() < 0.5:
                    sv['restart'] = {k: rng.choice([0, 3, 5, 30, 60]) for k in ('limit', 'interval') if rng.random() < 0.6}
            o['services'] = svcs
        if rng.random() < 0.75:
            o['endpoints'] = _lrows(rng, C._endpoint_schema, 'name', _lnames(rng, big=rng.random() < 0.15), dup=True)   # pylint: disable=protected-access
        if rng.random() < 0.7:
            o['environ'] = _lrows(rng, C._environ_schema, 'name', _lnames(rng), 0.9)   # pylint: disable=protected-access
        if rng.random() < 0.7:
            o['affinity_limits'] = {k: rng.choice([0, 1, 2, 10]) for k in rng.sample(['server', 'rack', 'pod', 'cell'], rng.randint(0, 3))}
        if rng.random() < 0.5:
            v = {}
            if rng.random() < 0.7:
                v['cells'] = [rng.choice(LSTR) for _ in range(rng.choice([0, 1, 2]))]
            if rng.random() < 0.7:
                v['rules'] = [{'pattern': pt, 'endpoints': [rng.choice(LSTR) for _ in range(rng.choice([0, 1, 2]))]}
                              for pt in rng.sample(['x.y*', 'a.*', 'b', 'a'], rng.randint(0, 3))]
            o['vring'] = v
        return o
    if cls == 'calloc':
        o = _lflat(rng, C._schema, 0.5, skip=('max_utilization',))   # pylint: disable=protected-access
        if rng.random() < 0.5:
            f = rng.randrange(0, 80) / 8.0
            o['max_utilization'] = rng.choice([f, repr(f), rng.randrange(0, 9)])
        if rng.random() < 0.75:
            o['assignments'] = _lrows(rng, C._assign_schema, 'pattern', _lnames(rng, big=rng.random() < 0.1), 0.8)   # pylint: disable=protected-access
        return o
    o = _lflat(rng, C._schema, 0.5)   # pylint: disable=protected-access
    if rng.random() < 0.75:
        o['limits'] = _lrows(rng, C._limit_schema, 'trait', _lnames(rng))   # pylint: disable=protected-access
    return o


def _lbreak(rng, cls, o):
    """objects outside the quantifier (correspondence only)"""
    o = json.loads(json.dumps(o))
    kl = {'app': ['services', 'endpoints', 'environ'], 'calloc': ['assignments'], 'part': ['limits']}[cls]
    x = rng.random()
    k = rng.choice(kl)
    key = {'services': 'name', 'endpoints': 'name', 'environ': 'name', 'assignments': 'pattern', 'limits': 'trait'}[k]
    if x < 0.2:
        o[k] = None
    elif x < 0.4:
        o.setdefault(k, []).append({'x': 'nokey'})
    elif x < 0.55 and cls == 'app':
        o['services'] = [{'name': 'dup', 'command': 'a', 'restart': {'limit': 1}}, {'name': 'dup', 'command': 'b', 'restart': {'limit': 2}}]
    elif x < 0.65 and cls == 'app':
        o['ephemeral_ports'] = rng.choice([None, {'tcp': None}])
    elif x < 0.75 and cls == 'app':
        o['services'] = [{'name': 's', 'restart': None}]
    elif x < 0.85:
        o.setdefault(k, []).append({key: None})
    else:
        o['cpu'] = rng.choice([5, True])
        o['shared_ip' if cls == 'app' else 'rank'] = rng.choice(['0', 'false', 'yes', 7])
    return o


DN_WORDS = ['foo', 'bar', 'a', 'b', 'x.y', 'prod', 'prod1', 'c1', 'somecell', 'A', '10', 'foo-bar_1', 'p']
DN_ROOT = ['ou=treadmill', 'dc=example', 'dc=com']


def gen_ldap(rng, tier):
    items = []
    # object ids as distinguished names: tenant paths of any depth
    for _ in range(rng.randint(1, 4)):
        if rng.random() < 0.7:
            items.append({'k': 'dn', 'cls': 'ca', 'cell': rng.choice(DN_WORDS), 'alloc': rng.choice(DN_WORDS),
                          'tenants': [rng.choice(DN_WORDS) for _ in range(rng.choice([1, 1, 2, 2, 3, 4]))], 'wf': True})
        else:
            items.append({'k': 'dn', 'cls': 'part', 'cell': rng.choice(DN_WORDS), 'partition': rng.choice(DN_WORDS),
                          'wf': True})
    n = rng.randint(8, 16)
    while len(items) < n:
        cls = rng.choice(['app', 'app', 'calloc', 'part'])
        r = rng.random()
        o = _lobj(rng, cls)
        if r < 0.6:
            items.append({'k': 'ldap', 'cls': cls, 'o': o, 'wf': True})
        elif r < 0.75:
            # near-collision pair: the same object with one optional field dropped / defaulted
            items.append({'k': 'ldap', 'cls': cls, 'o': o, 'wf': True})
            o2 = json.loads(json.dumps(o))
            ks = sorted(o2)
            if ks:
                k = rng.choice(ks)
                if isinstance(o2[k], list) and o2[k]:
                    o2[k] = o2[k][:-1]
                elif isinstance(o2[k], dict) and o2[k]:
                    o2[k].pop(sorted(o2[k])[0])
                else:
                    del o2[k]
            items.append({'k': 'ldap', 'cls': cls, 'o': o2, 'wf': True, 'near': True})
        elif r < 0.80:
            # create, then UPDATE with some scalar values changed - among them changes of letter case only -,
            # then read: the directory must hold what was written last
            o2 = json.loads(json.dumps(o))
            changed = 0
            for k in sorted(o2):
                v = o2[k]
                if isinstance(v, str) and v.swapcase() != v and rng.random() < 0.6:
                    o2[k] = v.swapcase()
                    changed += 1
                elif isinstance(v, list) and v and all(isinstance(x, str) for x in v) and \
                        any(x.swapcase() != x for x in v) and rng.random() < 0.5:
                    o2[k] = [x.swapcase() for x in v]
                    changed += 1
                elif isinstance(v, list) and len(set(x for x in v if isinstance(x, str))) >= 2 and \
                        all(isinstance(x, str) for x in v) and rng.random() < 0.3:
                    # same number of values, one of them repeated: every new value is among the old ones, yet
                    # the attribute changed
                    o2[k] = [v[-1]] * len(v)
                    changed += 1
            for k in sorted(o2):
                v = o2[k]
                if not k.startswith('_') and rng.random() < 0.15 and (
                        (isinstance(v, list) and v) or (isinstance(v, str) and v)):
                    o2[k] = [] if isinstance(v, list) else None      # the update clears the field
                    changed += 1
            if changed:
                items.append({'k': 'ldapupd', 'cls': cls, 'o': o, 'o2': o2, 'wf': True})
            else:
                items.append({'k': 'ldap', 'cls': cls, 'o': o, 'wf': True})
        elif r < 0.88:
            items.append({'k': 'ldap', 'cls': cls, 'o': _lbreak(rng, cls, o), 'wf': False})
        else:
            items.append({'k': 'lentry', 'cls': cls, 'o': o, 'mut': rng.getrandbits(32), 'wf': False})
    # the update path (tied per call to TmVerif.Codec.LdapUpdate): partial object updates and entry-level updates
    for _ in range(rng.randint(3, 7)):
        if rng.random() < 0.5:
            cls = rng.choice(['app', 'calloc', 'calloc', 'part', 'part'])
            o = _lobj(rng, cls)
            o2 = _lupd(rng, cls, o)
            if _upd_orphans(cls, o, o2):
                # not generated (notes/ldap_update_keyed_shrink.py): a keyed list loses a row that carried a field
                # no row of the new list names - the update does not read that attribute, so it stays behind
                for k in o2:
                    if k in o and isinstance(o[k], (list, dict)):
                        o2[k] = json.loads(json.dumps(o[k]))
                if _upd_orphans(cls, o, o2):
                    continue
            items.append({'k': 'ldapupd', 'cls': cls, 'o': o, 'o2': o2, 'wf': True, 'how': 'partial'})
        else:
            old, new = _gen_eupd(rng)
            items.append({'k': 'eupd', 'cls': 'entry', 'old': old, 'new': new, 'rm': rng.random() < 0.08, 'wf': True})
    return items


def _upd_orphans(cls, o, o2):
    """True when updating the stored `o` with `o2` would drop a keyed row (its option is in no attribute of the new
    entry) one of whose attributes the new entry does not name: `Admin.update` reads named attributes only."""
    import copy
    from treadmill.admin import _ldap
    a = _lcls(cls)(None)
    try:
        stored = _ldap._remove_empty(a.to_entry(copy.deepcopy(o)))       # pylint: disable=protected-access
        new = a.to_entry(copy.deepcopy(o2))
    except Exception:  # pylint: disable=broad-except
        return True
    named = {k.split(';', 1)[0] for k in new}
    live = {k.split(';', 1)[1] for k, v in new.items() if ';' in k and v}
    return any(';' in k and k.split(';', 1)[1] not in live and k.split(';', 1)[0] not in named for k in stored)


def _lupd_list(rng, v, fresh):
    """a new value for a plain list field `v` (non-empty); never one that has the same set and length as `v` but
    other multiplicities (a directory stores sets: such a pair is one value, the update rightly sends nothing)"""
    x = rng.random()
    if x < 0.2:
        return list(v)
    if x < 0.4:
        nv = list(v)
        rng.shuffle(nv)
        return nv
    if x < 0.5 and len(set(map(repr, v))) == len(v):
        return list(v) + [rng.choice(v)]
    if x < 0.6:
        return []
    if x < 0.7:
        return None
    if x < 0.8 and len(set(map(repr, v))) >= 2:
        return [v[-1]] * len(v)
    nv = list(v[:-1]) + [fresh]
    if len(nv) == len(v) and set(map(repr, nv)) == set(map(repr, v)) and sorted(map(repr, nv)) != sorted(map(repr, v)):
        return list(v)
    return nv


def _lupd(rng, cls, o):
    """the attributes given to `LdapObject.update` for a stored object `o`: a subset of its fields - unchanged,
    changed, cleared with None, given as [] -, keyed lists grown / shrunk / altered / reordered, and new fields"""
    C = _lcls(cls)
    types = {of: ft for _lf, of, ft in C._schema}                      # pylint: disable=protected-access
    keyed = {'services': (C, '_svc_schema', 'name'), 'endpoints': (C, '_endpoint_schema', 'name'),
             'environ': (C, '_environ_schema', 'name'), 'assignments': (C, '_assign_schema', 'pattern'),
             'limits': (C, '_limit_schema', 'trait')}
    o2 = {}
    for k in sorted(o):
        v = o[k]
        if rng.random() < 0.35:
            continue
        if k in keyed and isinstance(v, list):
            _c, sch, key = keyed[k]
            rows = json.loads(json.dumps(v))
            y = rng.random()
            if y < 0.2 and rows:
                rows = rows[:-1]
            elif y < 0.4:
                rows += _lrows(rng, getattr(C, sch), key, ['zz%d' % rng.randrange(3)])
            elif y < 0.6 and rows:
                r = rng.choice(rows)
                for _lf, of, ft in getattr(C, sch):
                    if of != key and rng.random() < 0.5:
                        r[of] = _lval(rng, ft)
            elif y < 0.8:
                rng.shuffle(rows)
            o2[k] = rows
        elif isinstance(v, list) and v and k in types:
            ft = types[k]
            o2[k] = _lupd_list(rng, v, 7 if ft == [int] else rng.choice(LSTR))
        elif isinstance(v, (dict, list)) or v is None or types.get(k) not in (str, int, bool) or k == 'max_utilization':
            o2[k] = json.loads(json.dumps(v))
        else:
            x = rng.random()
            o2[k] = v if x < 0.4 else (None if x < 0.55 else _lval(rng, types[k]))
    for _lf, of, ft in C._schema:                                     # pylint: disable=protected-access
        if of not in o and of not in o2 and of not in ('ephemeral_ports_tcp', 'ephemeral_ports_udp', 'max_utilization') \
                and rng.random() < 0.15:
            o2[of] = _lval(rng, ft)
    return o2


EATTR = ['cpu', 'memory', 'disk', 'traits', 'Traits', 'CPU', 'endpoint-name', 'endpoint-name;tm-endpoint-0',
         'endpoint-name;tm-endpoint-1', 'Endpoint-Name;tm-endpoint-2', 'endpoint-port;tm-endpoint-0',
         'endpoint-port;tm-endpoint-1', 'x;a;b', 'service-name;tm-service-a']
EVALS = ['a', 'b', 'c', 'A', '1', '', 'a b', True, False]


def _gen_eupd(rng):
    """(stored entry, new entry) as ordered lists of [name, values]"""
    def vals_():
        return [rng.choice(EVALS) for _ in range(rng.choice([1, 1, 2, 2, 3]))]
    old = [[k, vals_()] for k in rng.sample(EATTR, rng.randint(0, 7))]
    if rng.random() < 0.85:
        # names distinct without regard to case (what a directory holds)
        seen, keep = set(), []
        for k, v in old:
            if k.lower() not in seen:
                seen.add(k.lower())
                keep.append([k, v])
        old = keep
    new, names = [], set()
    for k, v in old:
        x = rng.random()
        if x < 0.15:
            continue
        kk = k.swapcase() if rng.random() < 0.08 else k
        uniq = len(set(map(repr, v))) == len(v)
        if x < 0.28:
            nv = list(v)
        elif x < 0.42:
            nv = list(reversed(v)) if rng.random() < 0.5 else rng.sample(v, len(v))
        elif x < 0.52:
            nv = list(v) + [rng.choice(v)]
        elif x < 0.62:
            nv = []
        elif x < 0.72:
            nv = [v[-1]] * len(v)                                   # same length, every new value among the old ones
        elif x < 0.82 and not uniq:
            u = [w for i, w in enumerate(v) if w not in v[:i]]
            nv = u + ['n%d' % i for i in range(len(v) - len(u))]    # same length, every old value among the new ones
        elif x < 0.9:
            nv = list(v[:-1]) + [rng.choice(EVALS)]
        else:
            nv = vals_()
        new.append([kk, nv])
        names.add(kk)
    for k in rng.sample(EATTR, rng.randint(0, 3)):
        if k not in names and (rng.random() < 0.3 or k.lower() not in {n.lower() for n in names}):
            new.append([k, [] if rng.random() < 0.3 else vals_()])
            names.add(k)
    rng.shuffle(new)
    return old, new


def _lenc(run, cls, o):
    import copy
    a = _lcls(cls)(None)
    try:
        e = a.to_entry(copy.deepcopy(o))
        obs = 'ok ' + H(json.dumps(e, sort_keys=True))
    except Exception:  # pylint: disable=broad-except
        e, obs = None, 'err'
    run.op('lenc %s %s' % (cls, ' '.join(_jtoks(o))), obs)
    return e


def _ldec(run, cls, e):
    import copy
    a = _lcls(cls)(None)
    try:
        n = a.from_entry(copy.deepcopy(e))
        obs = 'ok ' + H(json.dumps(n, sort_keys=True))
    except Exception:  # pylint: disable=broad-except
        n, obs = None, 'err'
    run.op('ldec %s %s' % (cls, ' '.join(_jtoks(e))), obs)
    return n


def _blank(x):
    """nothing to store: None, an empty list/dict, or containers of those"""
    if x is None:
        return True
    if isinstance(x, dict):
        return all(_blank(v) for v in x.values())
    if isinstance(x, list):
        return all(_blank(v) for v in x)
    return False


def _subsumed(x, y, path=''):
    """None if everything written in x (non-None, non-empty) is present, unaltered, in y; else a description"""
    if _blank(x):
        return None
    if isinstance(x, dict):
        if not isinstance(y, dict):
            return '%s: %r became %r' % (path, x, y)
        for k, v in x.items():
            if path == '' and k == 'data' and isinstance(v, dict):
                # a `dict`-typed schema field (Partition.data) is one JSON document: exact
                if canon(y.get(k)) != canon(v):
                    return '.data: %r became %r' % (v, y.get(k))
                continue
            if _blank(v):
                continue
            if k not in y:
                return '%s.%s lost (was %r)' % (path, k, v)
            d = _subsumed(v, y[k], path + '.' + k)
            if d:
                return d
        return None
    if isinstance(x, list):
        if not isinstance(y, list):
            return '%s: %r became %r' % (path, x, y)
        if not any(isinstance(v, dict) for v in x):
            # a plain list: same elements in the same order (None elements are not stored)
            kept = [v for v in x if v is not None]
            return None if canon(kept) == canon(y) else '%s: %r became %r' % (path, x, y)
        rest = list(y)

        def _weight(e):
            return sum(1 for val in e.values() if not _blank(val)) if isinstance(e, dict) else 1
        # rows may share their key (an endpoint name on two protocols): match the most specific written row
        # first, each to the read row that fits it most tightly (greedy first-fit would pair a short row with a
        # longer row of the same key and then miss the longer one)
        for v in sorted((e for e in x if not _blank(e)), key=_weight, reverse=True):
            cands = [i for i, w in enumerate(rest) if _subsumed(v, w, path) is None]
            if not cands:
                return '%s: element %r lost from %r' % (path, v, y)
            rest.pop(min(cands, key=lambda i: _weight(rest[i])))
        return None
    if isinstance(y, float) and not isinstance(x, bool) and isinstance(x, (int, float, str)):
        try:
            return None if float(x) == y else '%s: %r became %r' % (path, x, y)
        except ValueError:
            return '%s: %r became %r' % (path, x, y)
    if type(x) is not type(y) or x != y:
        return '%s: %r became %r' % (path, x, y)
    return None


def _mut_entry(rng, cls, e):
    e = {k: list(v) for k, v in e.items()}
    ks = sorted(e)
    x = rng.random()
    if not ks:
        return {'bogus;a;b': ['x']}
    k = rng.choice(ks)
    if x < 0.2:
        del e[k]
    elif x < 0.35:
        e[k] = []
    elif x < 0.5:
        e[k] = [rng.choice(['x', '', '-', '007', '1x', 'true', 'FALSE', '0', '{bad json', '[1, 2]', '{"b": 1, "a": [true]}'])]
        if k == 'max-utilization':
            e[k] = [rng.choice(['2', '0.5', '12.25', '-1'])]     # float() of other texts is not modelled
    elif x < 0.6:
        e[k] = e[k] + ['extra']
    elif x < 0.7:
        e[k + ';x'] = ['v']
    elif x < 0.8:
        e['unknown;tm-bogus-0'] = ['v']
    elif x < 0.9:
        pfx = {'app': 'tm-endpoint', 'calloc': 'tm-alloc-assignment', 'part': 'tm-alloc-limit'}[cls]
        f = {'app': 'endpoint-name', 'calloc': 'pattern', 'part': 'allocation-limit-trait'}[cls]
        e['%s;%s-%s' % (f, pfx, rng.choice(['zz', '', '0', 'ff']))] = [rng.choice(['n', 'web'])]
    else:
        # (not on an option attribute: a bool among strings makes the final sort of the rows raise
        #  TypeError depending on which pairs timsort compares; not modelled)
        k = rng.choice([x for x in ks if ';' not in x] or ks)
        if ';' not in k:
            e[k] = [rng.choice([True, False])]
    return e


# ---- the update path: an in-memory directory + per-call tie with TmVerif.Codec.LdapUpdate -------------

def _alower(s):
    """lower case of an attribute description (ASCII, as `lowerAscii` of the model)"""
    return ''.join(chr(ord(c) + 32) if 'A' <= c <= 'Z' else c for c in s)


def _etoks(e):
    """an entry (ordered dict name -> values) as an ORDERED list of pairs"""
    return ' '.join(_jtoks([[k, list(v)] for k, v in e.items()]))


def _eobs(e):
    return 'ok ' + H(json.dumps([[k, list(v)] for k, v in e.items()]))


def _mods_pairs(changes):
    import ldap3
    names = {ldap3.MODIFY_ADD: 'add', ldap3.MODIFY_DELETE: 'delete', ldap3.MODIFY_REPLACE: 'replace'}
    return [[a, [[names.get(op, str(op)), list(vals)] for op, vals in ms]] for a, ms in (changes or {}).items()]


class _MemConn(object):
    """One stored entry behind the ldap3 connection interface `Admin` uses.  This is the ASSUMED directory
    behaviour, the same specification as `fetch` / `applyMods` of TmVerif/Codec/LdapUpdate.lean (compared with them
    on every request): attribute names match without regard to case, a search for `attr` returns its option
    variants `attr;opt`, an attribute without values does not exist; ADD appends, DELETE without values removes
    the attribute, DELETE with values removes those values, REPLACE sets the values."""

    def __init__(self, entry):
        self.entry = entry          # dict name -> list, insertion-ordered
        self.result = None
        self.response = None
        self.searches = []          # (attributes requested, entry returned)
        self.requests = []          # modify requests as sent

    # -- what Admin.paged_search / Admin.search call
    @property
    def extend(self):
        conn = self

        class _Std(object):
            @staticmethod
            def paged_search(search_base=None, search_filter=None, search_scope=None, attributes=None, **_kw):
                return iter(conn.do_search(attributes))

        class _Ext(object):
            standard = _Std
        return _Ext

    def search(self, search_base=None, search_filter=None, search_scope=None, attributes=None, **_kw):
        self.response = self.do_search(attributes)

    def do_search(self, attributes):
        want = [_alower(a) for a in attributes]
        got = {k: list(v) for k, v in self.entry.items() if _alower(k.split(';', 1)[0]) in want}
        self.searches.append((list(attributes), {k: list(v) for k, v in got.items()}))
        return [{'dn': 'dn', 'attributes': got}]

    # -- what Admin.modify calls
    def _find(self, attr):
        for k in self.entry:
            if _alower(k) == _alower(attr):
                return k
        return None

    def _set(self, attr, vals):
        if not vals:
            for k in [k for k in self.entry if _alower(k) == _alower(attr)]:
                del self.entry[k]
            return
        k = self._find(attr)
        self.entry[attr if k is None else k] = list(vals)

    def modify(self, dn, changes):
        import ldap3
        self.requests.append({a: [(op, list(vals)) for op, vals in ms] for a, ms in changes.items()})
        for attr, mods in changes.items():
            for op_, vals in mods:
                k = self._find(attr)
                cur = list(self.entry[k]) if k is not None else []
                if op_ == ldap3.MODIFY_ADD:
                    self._set(attr, cur + list(vals))
                elif op_ == ldap3.MODIFY_DELETE:
                    self._set(attr, [v for v in cur if not any(v is w or (type(v) is type(w) and v == w) for w in vals)]
                              if vals else [])
                elif op_ == ldap3.MODIFY_REPLACE:
                    self._set(attr, list(vals))
                else:
                    raise ValueError(op_)


def _mem_admin(entry):
    """the REAL `Admin` over the in-memory directory (`update` / `remove` only note what they were given)"""
    import copy
    from treadmill.admin import _ldap

    class _Adm(_ldap.Admin):
        passed = None

        def update(self, dn, new_entry):
            self.passed = copy.deepcopy(new_entry)
            return _ldap.Admin.update(self, dn, new_entry)

        def remove(self, dn, entry):
            self.passed = copy.deepcopy(entry)
            return _ldap.Admin.remove(self, dn, entry)

    adm = _Adm('ldap://x', 'dc=x')
    conn = _MemConn(entry)
    adm.ldap = conn
    adm.write_ldap = conn
    return adm, conn


def _ci_distinct(e):
    return len({_alower(k) for k in e}) == len(e)


def _vset(vals):
    return set(map(repr, vals))


def _tie_update(run, mon, before, new_entry, conn, after, site):
    """One call of the real `Admin.update` as the connection saw it (attributes read, entry returned, modify
    request sent, entry stored afterwards) against the model; returns the request as pairs."""
    run.tags.add('ldap-upd-call:' + site)
    mon.updates += 1
    attrs, fetched = conn.searches[-1] if conn.searches else ([], {})
    mods = _mods_pairs(conn.requests[-1]) if conn.requests else []
    mtoks = ' '.join(_jtoks(mods))
    run.op('ldapkeys ' + _etoks(new_entry), 'ok ' + H(json.dumps(list(attrs))))
    run.op('ldapfetch %s %s' % (' '.join(_jtoks(list(attrs))), _etoks(before)), _eobs(fetched))
    run.op('ldapdiff %s %s' % (_etoks(fetched), _etoks(new_entry)), 'ok ' + H(json.dumps(mods)))
    run.op('ldapapply %s %s' % (_etoks(before), mtoks), _eobs(after))
    run.op('ldapupd %s %s' % (_etoks(before), _etoks(new_entry)),
           'ok ' + H(json.dumps([mods, [[k, list(v)] for k, v in after.items()]])))
    # ---- histogram
    for op in sorted({op for _a, ms in mods for op, _v in ms}):
        run.tags.add('ldap-upd:' + op)
    if not mods:
        run.tags.add('ldap-upd:nothing-sent')
    low_old = {_alower(k): k for k in fetched}
    touched = {_alower(a) for a, _ms in mods}
    for k, vals in new_entry.items():
        ok = low_old.get(_alower(k))
        old = fetched.get(ok, []) if ok is not None else []
        hit = _alower(k) in touched
        if ok is not None and ok != k:
            run.tags.add('ldap-upd:name-differs-in-case')
        if ';' in k and hit:
            run.tags.add('ldap-upd:option-attribute-modified')
        if not vals:
            run.tags.add('ldap-upd:empty-list-clears' if old else 'ldap-upd:empty-list-for-absent')
            continue
        if len(_vset(vals)) < len(vals):
            run.tags.add('ldap-upd:duplicate-values')
        if old and list(old) != list(vals) and not hit:
            run.tags.add('ldap-upd:same-set-other-order-untouched')
        if old and list(old) == list(vals):
            run.tags.add('ldap-upd:attribute-unchanged')
        if old and hit and len(old) == len(vals) and _vset(vals) < _vset(old):
            run.tags.add('ldap-upd:same-length-new-within-old')
        if old and hit and len(old) == len(vals) and _vset(old) < _vset(vals):
            run.tags.add('ldap-upd:same-length-old-within-new')
    if any(';' in a and op == 'delete' and _alower(a) not in {_alower(k) for k in new_entry}
           for a, ms in mods for op, _v in ms):
        run.tags.add('ldap-upd:keyed-row-dropped')
    if any(len(v) >= 2 and ';' in k for k, v in new_entry.items()):
        run.tags.add('ldap-upd:multi-valued-option-attribute')
    # ---- monitor (entry level, on the real code's result; nothing of the model): every attribute the new entry
    # names holds the new values as a SET (absent when there are none), every attribute it does not name - by its
    # plain name - is as before.  Stated for entries whose names are distinct without regard to case.
    if _ci_distinct(before) and _ci_distinct(new_entry):
        a_low = {_alower(k): v for k, v in after.items()}
        b_low = {_alower(k): v for k, v in before.items()}
        named = {_alower(k.split(';', 1)[0]) for k in new_entry}
        bad = []
        for k, vals in new_entry.items():
            got = a_low.get(_alower(k))
            if (got is None) != (not vals) or (vals and _vset(got) != _vset(vals)):
                bad.append('%s: wrote %r, stored %r' % (k, vals, got))
        for lk in sorted(set(a_low) | set(b_low)):
            if lk.split(';', 1)[0] not in named and a_low.get(lk) != b_low.get(lk):
                bad.append('%s: not named, was %r, now %r' % (lk, b_low.get(lk), a_low.get(lk)))
        if bad:
            mon.hit('ldap-update', site, 'stored %r, update with %r: %s' % (before, new_entry, '; '.join(bad)))
    return mods


def run_ldap(items, run, mon):
    import random as _random
    from treadmill.admin import _ldap
    class _Adm(object):
        """What `LdapObject.dn` needs of the admin connection: the real `Admin.dn`."""
        root_ou = ','.join(DN_ROOT)
        dn = _ldap.Admin.dn
    for it in items:
        cls = it['cls']
        if it['k'] == 'dn':
            run.tags.add('ldap-dn:' + cls)
            if cls == 'ca':
                ident = [it['cell'], ':'.join(it['tenants']) + '/' + it['alloc']]
                want = '%s/%s/%s' % (':'.join(it['tenants']), it['alloc'], it['cell'])
                try:
                    dn = _ldap.CellAllocation(_Adm()).dn(ident)
                    back = _ldap._dn2cellalloc_id(dn)             # pylint: disable=protected-access
                    obs = 'dn %s dec %s' % (H(dn), 'none' if back is None else 'some ' + H(back))
                except Exception:  # pylint: disable=broad-except
                    dn, back, obs = None, None, 'err'
                run.op('dnca %d %s' % (len(DN_ROOT), ' '.join(H(x) for x in DN_ROOT + [it['cell'], it['alloc']] + it['tenants'])), obs)
                site = 'CellAllocation.dn/_dn2cellalloc_id'
            else:
                ident = [it['partition'], it['cell']]
                want = (it['cell'], it['partition'])
                try:
                    dn = _ldap.Partition(_Adm()).dn(ident)
                    back = _ldap._dn2partition_id(dn)             # pylint: disable=protected-access
                    obs = 'dn %s dec %s' % (H(dn), 'none' if back is None else 'some %s %s' % (H(back[0]), H(back[1])))
                except Exception:  # pylint: disable=broad-except
                    dn, back, obs = None, None, 'err'
                run.op('dnpart %d %s' % (len(DN_ROOT), ' '.join(H(x) for x in DN_ROOT + [it['partition'], it['cell']])), obs)
                site = 'Partition.dn/_dn2partition_id'
            # ---- monitor: the id read back from the dn is the id written; distinct ids, distinct dns
            if dn is None or back != want:
                mon.hit('ldap-dn-roundtrip', site, 'id %r -> dn %r -> id %r' % (want, dn, back))
            else:
                mon.inj('ldap-dn:' + cls, site, dn, want)
                mon.nt += 1
            continue
        def _unordered0(x):
            if isinstance(x, dict):
                return {k_: _unordered0(v_) for k_, v_ in x.items()}
            if isinstance(x, list) and not any(isinstance(v_, (dict, list)) for v_ in x):
                return sorted(x, key=repr)
            if isinstance(x, list):
                return sorted((_unordered0(v_) for v_ in x), key=repr)
            return x
        if it['k'] == 'ldapupd':
            # the update path of the admin objects: Admin.update diffs the stored entry against the new one
            # (`_diff_entries`) and sends the modifications; applied to the stored entry as the directory would
            import copy
            import ldap3
            a_ = _lcls(cls)(None)
            run.tags.add('ldap-update:' + cls)
            # F19 (known finding): a keyed list shrinks and the dropped row carried a field no remaining row names
            uclause = 'ldap-update-keyed-row-orphan' if _upd_orphans(cls, it['o'], it['o2']) else 'ldap-update'
            try:
                stored = _ldap._remove_empty(a_.to_entry(copy.deepcopy(it['o'])))      # pylint: disable=protected-access
                stored0 = copy.deepcopy(stored)
                # the REAL LdapObject.update -> to_entry -> the REAL Admin.update (get / _diff_entries / modify) over
                # the in-memory directory; the new entry carries [] for what is cleared
                adm_, conn_ = _mem_admin(stored)
                ident_ = {'app': 'proid.app', 'calloc': ['cell', 'tenant/alloc'], 'part': ['part', 'cell']}[cls]
                _lcls(cls)(adm_).update(ident_, copy.deepcopy(it['o2']))
                back = a_.from_entry(copy.deepcopy(stored))
                # the retrieval path: the real LdapObject.get asks the directory for the attributes of ITS schema()
                # (the directory honours the selection) and decodes what comes back - it must be the object the stored
                # entry decodes to
                nsearch_ = len(conn_.searches)
                got_ = _lcls(cls)(adm_).get(ident_, dirty=True)
                del conn_.searches[nsearch_:]
                # (get() hands the dn to from_entry, which derives the identity fields from it)
                back_dn_ = a_.from_entry(copy.deepcopy(stored), _lcls(cls)(adm_).dn(ident_))
                if stored and canon(got_) != canon(back_dn_):
                    diff_ = sorted(k_ for k_ in set(got_ or {}) | set(back_dn_)
                                   if canon((got_ or {}).get(k_)) != canon(back_dn_.get(k_)))
                    mon.hit('ldap-get-differs-from-stored', LCLS[cls] + '.get',
                            'stored %r decodes to %r in fields %r, get() returned %r' % (
                                stored, {k_: back_dn_.get(k_) for k_ in diff_}, diff_,
                                {k_: (got_ or {}).get(k_) for k_ in diff_}))
                    continue
                run.tags.add('ldap-get')
            except Exception as exc:  # pylint: disable=broad-except
                mon.hit(uclause, LCLS[cls] + '.update', 'update of %r to %r raised %r' % (it['o'], it['o2'], exc))
                continue
            # ---- per-call tie: what the connection saw against `diffEntries` / `adminUpdate` of the model, and
            # LdapObject.update as `to_entry` followed by it
            mods_ = _tie_update(run, mon, stored0, adm_.passed, conn_, stored, LCLS[cls] + '.update')
            run.op('ldapobjupd %s %s %s' % (cls, _etoks(stored0), ' '.join(_jtoks(it['o2']))), _eobs(stored))
            for k_, v_ in it['o2'].items():
                if v_ is None:
                    run.tags.add('ldap-upd:field-none')
                elif v_ == [] and not k_.startswith('_'):
                    run.tags.add('ldap-upd:field-empty-list')
                elif isinstance(v_, list) and v_ and isinstance(v_[0], dict):
                    run.tags.add('ldap-upd:keyed-list-given')
            if it.get('how'):
                run.tags.add('ldap-upd-gen:' + it['how'])
            # oracle of the update: every attribute NAMED in the new entry (with whatever options) takes the new
            # entry's values, everything else stays - computed here on the entries, decoded by the real from_entry
            try:
                new_e = a_.to_entry(copy.deepcopy(it['o2']))
                named = {k_.split(';', 1)[0] for k_ in new_e}
                want_e = {k_: list(v_) for k_, v_ in stored0.items() if k_.split(';', 1)[0] not in named}
                want_e.update({k_: [x_ for x_ in v_ if x_ is not None] for k_, v_ in new_e.items()
                               if [x_ for x_ in v_ if x_ is not None]})
                want = a_.from_entry(copy.deepcopy(want_e))
            except Exception:  # pylint: disable=broad-except
                want = None
            if want is not None and canon(_unordered0(want)) != canon(_unordered0(back)):
                diff = sorted(k_ for k_ in set(want) | set(back)
                              if canon(_unordered0(want.get(k_))) != canon(_unordered0(back.get(k_))))
                mon.hit(uclause, LCLS[cls] + '.update',
                        'created %r, updated to %r: fields %r read %r, the update should leave %r' % (
                            it['o'], it['o2'], diff, {k_: back.get(k_) for k_ in diff}, {k_: want.get(k_) for k_ in diff}))
                continue
            def _unordered(x):
                # the values of a multi-valued attribute are a SET in the directory: an update that only permutes
                # them changes nothing
                if isinstance(x, dict):
                    return {k_: _unordered(v_) for k_, v_ in x.items()}
                if isinstance(x, list) and not any(isinstance(v_, (dict, list)) for v_ in x):
                    return sorted(x, key=repr)
                if isinstance(x, list):
                    return [_unordered(v_) for v_ in x]
                return x
            rows_bad = ['%s: %d rows written, %d read' % (k_, len(v_), len(back.get(k_) or []))
                        for k_, v_ in it['o2'].items()
                        if isinstance(v_, list) and v_ and all(isinstance(x_, dict) for x_ in v_)
                        and len(back.get(k_) or []) != len(v_)]
            if rows_bad:
                mon.hit(uclause, LCLS[cls] + '.update',
                        'created %r, updated to %r, read %r: %s' % (it['o'], it['o2'], back, '; '.join(rows_bad)))
                continue
            lost = _subsumed(_unordered(it['o2']), _unordered(back))
            if lost:
                mon.hit(uclause, LCLS[cls] + '.update',
                        'created %r, updated to %r, read %r: %s' % (it['o'], it['o2'], back, lost))
            else:
                mon.nt += 1
            continue
        if it['k'] == 'eupd':
            # entry level: the real Admin.update / Admin.remove on a stored entry given as such (names that differ
            # in case, option variants, repeated values, [] for present and absent attributes)
            import copy
            stored = {k_: list(v_) for k_, v_ in it['old']}
            new_e = {k_: list(v_) for k_, v_ in it['new']}
            before = copy.deepcopy(stored)
            adm_, conn_ = _mem_admin(stored)
            site = 'Admin.remove' if it.get('rm') else 'Admin.update'
            try:
                if it.get('rm'):
                    adm_.remove('dn', copy.deepcopy(new_e))
                else:
                    adm_.update('dn', copy.deepcopy(new_e))
            except Exception as exc:  # pylint: disable=broad-except
                mon.hit('ldap-update', site, 'stored %r, %s with %r raised %r' % (before, site, new_e, exc))
                continue
            if it.get('rm'):
                mods_ = _mods_pairs(conn_.requests[-1]) if conn_.requests else []
                run.op('ldaprm ' + _etoks(new_e), 'ok ' + H(json.dumps(mods_)))
                run.op('ldapapply %s %s' % (_etoks(before), ' '.join(_jtoks(mods_))), _eobs(stored))
                run.tags.add('ldap-upd-call:Admin.remove')
            else:
                _tie_update(run, mon, before, new_e, conn_, stored, site)
                if not (_ci_distinct(before) and _ci_distinct(new_e)):
                    run.tags.add('ldap-upd:names-not-distinct-by-case')
                mon.nt += 1
            continue
        if it['k'] == 'ldap':
            o = it['o']
            e = _lenc(run, cls, o)
            run.tags.add('ldap:' + cls if it['wf'] else 'ldap-outside-wf')
            if e is None:
                continue
            e2 = _ldap._remove_empty(e)     # pylint: disable=protected-access
            n1 = _ldec(run, cls, e2)
            if any(v == [] for v in e.values()):
                _ldec(run, cls, e)         # what from_entry(to_entry(o)) does with the [] markers (IndexError on None fields)
            if not it['wf']:
                continue
            # ---- monitor ----------------------------------------------------------------------
            if n1 is None:
                mon.hit('ldap-roundtrip', LCLS[cls] + '.from_entry', 'decode of the stored entry raised: %r' % (o,))
                continue
            lost = _subsumed(o, n1)
            if lost:
                mon.hit('ldap-roundtrip', LCLS[cls] + '.from_entry', 'written %r read %r: %s' % (o, n1, lost))
            a = _lcls(cls)(None)
            import copy
            try:
                e3 = _ldap._remove_empty(a.to_entry(copy.deepcopy(n1)))   # pylint: disable=protected-access
                n2 = a.from_entry(copy.deepcopy(e3))
            except Exception as exc:  # pylint: disable=broad-except
                mon.hit('ldap-roundtrip', LCLS[cls] + '.to_entry', 're-encoding a decoded object raised %r: %r' % (exc, n1))
                continue
            if canon(n2) != canon(n1):
                diff = sorted(k for k in set(n1) | set(n2) if canon(n1.get(k)) != canon(n2.get(k)))
                if diff == ['ephemeral_ports'] and n1.get('ephemeral_ports') == {}:
                    mon.hit('ldap-roundtrip-ephemeral-ports-empty', 'Application.to_entry',
                            'decoded %r, written back and decoded again: %r' % (n1.get('ephemeral_ports'), n2.get('ephemeral_ports')))
                else:
                    mon.hit('ldap-roundtrip', LCLS[cls] + '.from_entry',
                            'decode(encode(x)) != x for a decoded x; fields %r: %r vs %r' % (
                                diff, {k: n1.get(k) for k in diff}, {k: n2.get(k) for k in diff}))
            else:
                mon.inj('ldap:' + cls, LCLS[cls] + '.to_entry', e3, n1)
            # read - modify - write: a value added to ONE list field of the decoded object is written to that field
            # only (the decoded fields are separate values, whether they came from the entry or from a default)
            lf_ = sorted(k for k, v in n1.items() if isinstance(v, list) and not any(isinstance(x, (dict, list)) for x in v))
            if len(lf_) >= 2:
                try:
                    tgt_ = lf_[len(canon(o)) % len(lf_)]
                    m1 = a.from_entry(copy.deepcopy(e3))
                    m1[tgt_].append('zz9')
                    m2 = copy.deepcopy(n1)
                    m2[tgt_] = list(m2[tgt_]) + ['zz9']
                    w1 = _ldap._remove_empty(a.to_entry(m1))      # pylint: disable=protected-access
                    w2 = _ldap._remove_empty(a.to_entry(copy.deepcopy(m2)))   # pylint: disable=protected-access
                    if canon(w1) != canon(w2):
                        bad_ = sorted(k for k in set(w1) | set(w2) if canon(w1.get(k)) != canon(w2.get(k)))
                        mon.hit('ldap-decoded-fields-shared', LCLS[cls] + '.from_entry',
                                'a value appended to field %r of the decoded object is also written to %r' % (tgt_, bad_))
                    run.tags.add('ldap-read-modify-write')
                except Exception:  # pylint: disable=broad-except
                    pass
            txt = canon(o)
            nkeyed = max([len(v) for v in o.values() if isinstance(v, list) and v and isinstance(v[0], dict)] + [0])
            if nkeyed >= 2 or 'null' in txt or '[]' in txt or '{}' in txt:
                mon.nt += 1
            if it.get('near'):
                mon.near += 1
        elif it['k'] == 'lentry':
            import copy
            a = _lcls(cls)(None)
            try:
                e = _ldap._remove_empty(a.to_entry(copy.deepcopy(it['o'])))   # pylint: disable=protected-access
            except Exception:  # pylint: disable=broad-except
                continue
            e = _mut_entry(_random.Random(it['mut']), cls, e)
            _ldec(run, cls, e)
            run.tags.add('ldap-entry-malformed')

# ======================================================================================
# engine interface
# ======================================================================================

GEN = {'uid': gen_uid, 'rule': gen_rule, 'event': gen_event, 'payload': gen_payload, 'ldap': gen_ldap}
RUN = {'uid': run_uid, 'rule': run_rule, 'event': run_event, 'payload': run_payload, 'ldap': run_ldap}


def gen_case(rng, pid, tier):
    tot = sum(WEIGHTS[c] for c in CODECS)
    x = rng.random() * tot
    codec = CODECS[-1]
    for c in CODECS:
        x -= WEIGHTS[c]
        if x < 0:
            codec = c
            break
    return {'codec': codec, 'items': GEN[codec](rng, tier)}


def case_ops(case):
    return case['items']


def with_ops(case, ops):
    return {'codec': case['codec'], 'items': list(ops)}


def run_impl(case, pid):
    run = fw.ImplRun()
    mon = Batch(run)
    RUN[case['codec']](case['items'], run, mon)
    run.tags.add('codec=' + case['codec'])
    if any(not it.get('wf', True) for it in case['items']):
        run.tags.add('has-malformed')
    run.nontrivial = mon.nt >= 5 and mon.near >= 1
    if run.nontrivial:
        run.tags.add('nontrivial:' + case['codec'])
    return run
