"""Engine `sched` (C01-C05, C07, C08): real `treadmill.scheduler.Cell` vs Lean `TmVerif.Sched`.

A case is a scheduler-level history: topology, allocations, then ops mirroring what the loader
and master do to a Cell (add/remove/reload servers, state changes, apps added / moved / removed,
priorities, blacklist, unschedule, renew, identity groups, clock) interleaved with `cycle`.
The real code runs under an integer virtual clock.  For every `cycle` the harness records what
the implementation itself resolved - the queue each `_find_placements` call received (names and
whether the rank is _UNPLACED_RANK) and the values `IdentityGroup.acquire` popped - and passes
them to the model as part of the op.  After every op the full observable state is compared.
"""
import collections
import sys

import mock
import numpy as np

import fw

NAME = 'sched'
DRIVER = 'Sched'
CASES = {'quick': 800, 'thorough': 6000, 'search': 1500}

ROOT = 1000
LEVELS = {'server': 0, 'cell': 1, 'pod': 2, 'rack': 3}
LEVEL_NAMES = {v: k for k, v in LEVELS.items()}
RULE = {
    'C01': 'random cell histories (1-2 pods x 1-2 racks x 2-6 servers, 1-2 partitions, independent '
           'capacity/demand dimensions, 25-70 ops with cycles); non-trivial = history with >=1 cycle '
           'that evicted and >=1 cycle that restored an evicted app or a server reload/removal; '
           'distinct = op-list hash',
    'C03': 'same histories; non-trivial = >=1 app moved to an allocation of another partition or '
           'allocation traits changed while placed, or a lease placement/renewal near valid_until',
    'C04': 'same histories with affinity limits on random subsets of levels; non-trivial = a cycle in '
           'which an app with a non-server-level limit was placed by the eviction or restore path',
    'C05': 'same histories with identity groups resized (grow, shrink, zero, delete/recreate) while '
           'identities are held; non-trivial = group resized while >=1 identity held and >=1 pending app of the group',
    'C07': 'same histories; non-trivial = cycle with >=1 eviction whose victim was restored or >=2 victims',
    'C08': 'same histories; non-trivial = a down or frozen server holding >=1 app across a cycle, with the '
           'clock crossing a retention boundary',
    'C02': 'random histories driven to a fixed point (cycle until nothing changes), then one probe '
           'app near the fitting boundary and one cycle; non-trivial = probe fits exactly one up server, or fits '
           'none by exactly one constraint; oracle scans leaf servers directly',
}

_pl = collections.namedtuple('Placement', 'name before exp_before after exp_after')


def sname(i):
    return 's%d' % i


def aname(i, aff):
    return 'p.a%d#%010d' % (aff, i)


# --------------------------------------------------------------------------------------------
# generation
# --------------------------------------------------------------------------------------------

def gen_case(rng, pid, tier):
    buckets = []
    racks = []
    nid = [ROOT]
    import random as _random0
    # (side stream) a row of racks: a bucket of level `rack` that groups buckets of level `rack` - two nodes of one
    # level name on a server's ancestor chain, each with its own counter and the same declared limit
    rows = _random0.Random(repr(rng.getstate()[1][:4]) + 'rows').random() < (0.3 if pid == 'C04' else 0.15)
    for _p in range(rng.randint(1, 2)):
        nid[0] += 1
        pod = nid[0]
        buckets.append([pod, ROOT, LEVELS['pod']])
        above = pod
        if rows:
            nid[0] += 1
            above = nid[0]
            buckets.append([above, pod, LEVELS['rack']])
        for _r in range(rng.randint(1, 2)):
            nid[0] += 1
            buckets.append([nid[0], above, LEVELS['rack']])
            racks.append(nid[0])
    labels = [0] if rng.random() < 0.55 else [0, 1]
    servers = []
    caps = [4, 8, 10, 16]
    nsrv = rng.randint(2, 6)
    # "tight" cells (20%): equal-sized servers, each filled by one instance of exactly its size, few
    # arrivals afterwards - every placement then needs an eviction, and lease renewals matter
    tight = rng.random() < 0.2
    if tight:
        nsrv = rng.randint(2, 4)
        labels = [0]
    for i in range(1, nsrv + 1):
        cap = [rng.choice(caps) for _ in range(3)]
        if tight:
            cap = [rng.choice([8, 10])] * 3
        servers.append([i, rng.choice(racks), cap, rng.choice(labels), rng.choice([0, 0, 2, 6]) if not tight else 0,
                        rng.choice([50, 500, 100000]) if not tight else rng.choice([300, 300, 100000])])
    # allocations: id, label, path, reserved, rank, rank_adj, max_util, traits
    allocs = []
    alid = 0
    for lab in labels:
        alid += 1
        allocs.append([alid, lab, [], None, None, 0, None, 0])
        for t in ('t1', 't2'):
            alid += 1
            allocs.append([alid, lab, [t], [rng.choice([0, 4, 8])] * 3, rng.choice([100, 100, 50]),
                           rng.choice([0, 0, 10]), rng.choice([None, None, None, 1.5, 2.0]),
                           rng.choice([0, 0, 0, 2])])
    aff_limits = {}
    for aff in range(4):
        lim = {}
        if rng.random() < 0.45:
            for lvl in rng.sample(['server', 'rack', 'pod', 'cell'], rng.randint(1, 2)):
                # (0 = "never under a node of this level": servers hang off buckets of any level)
                lim[lvl] = rng.randint(1, 3) if rng.random() < 0.9 else 0
        if rows and pid == 'C04' and _random0.Random(repr(rng.getstate()[1][:4]) + 'rows-lim%d' % aff).random() < 0.7:
            lim = {'rack': 1}           # one per rack: binds on the row of racks as well as on each rack
        aff_limits[aff] = lim
    ops = []
    napp = [0]
    live = []
    nsrv_next = [nsrv]
    alive_srv = [s[0] for s in servers]
    groups = [1, 2]
    if rng.random() < 0.7:
        ops.append(['idg', 1, rng.randint(0, 3)])

    made = []
    few_affs = rng.random() < 0.25
    zero_dims = rng.random() < 0.25       # instances that ask for nothing in one dimension (a manifest without `disk`)

    def newapp():
        napp[0] += 1
        # (in a quarter of the cases most instances share ONE affinity, so that nodes hold several of a kind)
        aff = 0 if (few_affs and rng.random() < 0.8) else rng.randrange(4)
        a = ['app', napp[0], rng.choice([0, 1, 1, 5, 10, 50, 100]),
             [rng.choice([1, 2, 3, 5, 8]) for _ in range(3)], aff, aff_limits[aff],
             rng.choice([0, 30, 30, None]), rng.choice([0, 0, 0, 40, 100]),
             rng.choice([None, None, 1, 1, 2]), rng.random() < 0.12, rng.choice([0, 0, 0, 2, 4]),
             rng.choice(allocs)[0]]
        if zero_dims and rng.random() < 0.5:
            a[3][rng.randrange(3)] = 0
        if made and rng.random() < 0.3:
            # a twin: same placement shape (affinity, lease, traits, allocation) as an earlier instance,
            # demand at least as large - what the feasibility tracker and the restore path key on
            t = rng.choice(made)
            if rng.random() < 0.3:
                # incomparable with the original: one dimension larger, another smaller
                a[3] = list(t[3])
                i, j = rng.sample(range(3), 2)
                a[3][i] += rng.choice([1, 2, 3])
                a[3][j] = max(1, a[3][j] - rng.choice([1, 2, 3]))
            else:
                a[3] = [d + rng.choice([0, 0, 0, 1]) for d in t[3]]
            a[4], a[5], a[7], a[10], a[11] = t[4], t[5], t[7], t[10], t[11]
            if rng.random() < 0.5:
                a[8] = t[8]
        made.append(a)
        live.append(napp[0])
        return a

    steps = rng.randint(25, 70)
    now = 0
    if tight:
        for srv in servers:
            a = newapp()
            a[3] = list(srv[2])
            a[7] = rng.choice([0, 100, 100])
            a[8], a[9], a[10] = None, False, 0
            a[11] = allocs[0][0]
            ops.append(a)
        now = 100
        ops.append(['tick', now])
        ops.append(['cycle'])
        steps = rng.randint(10, 30)
    for _ in range(steps):
        r = rng.random()
        if tight and r < 0.30 and live:
            r = 0.30 + rng.random() * 0.70 if rng.random() < 0.75 else r
        if r < 0.30 or not live:
            ops.append(newapp())
        elif r < 0.36:
            a = rng.choice(live)
            live.remove(a)
            ops.append(['rmapp', a])
        elif r < 0.44 and alive_srv:
            ops.append(['state', rng.choice(alive_srv), rng.choice(['up', 'down', 'down', 'frozen'])])
        elif r < 0.50:
            now += rng.choice([1, 5, 20, 29, 31, 40, 200])
            ops.append(['tick', now])
        elif r < 0.54:
            ops.append(['prio', rng.choice(live), rng.choice([0, 1, 50, 100])])
        elif r < 0.58:
            ops.append(['bl', rng.choice(live), rng.random() < 0.6])
        elif r < 0.61:
            ops.append(['unsched', rng.choice(live), True])
        elif r < 0.66:
            ops.append(['idg', rng.choice(groups), rng.randint(0, 4)])
        elif r < 0.68:
            ops.append(['rmidg', rng.choice(groups)])
        elif r < 0.70:
            ops.append(['renew', rng.choice(live)])
        elif r < 0.74:
            ops.append(['updapp', rng.choice(live), rng.choice(allocs)[0], rng.choice([1, 10, 50, 100]),
                        rng.choice([0, 30, None]), rng.random() < 0.1])
        elif r < 0.77 and len(alive_srv) > 1:
            s = rng.choice(alive_srv)
            alive_srv.remove(s)
            ops.append(['rmserver', s] if rng.random() < 0.55 else ['detach', s])
            if pid == 'C05' and groups and rng.random() < 0.4:
                # before the next cycle (the instances that lost the server still hold their identities) a group
                # shrinks and grows again: a held identity must not be offered a second time
                g_ = rng.choice(groups)
                ops.append(['idg', g_, rng.randint(0, 2)])
                ops.append(['idg', g_, rng.randint(2, 4)])
        elif r < 0.80:
            nsrv_next[0] += 1
            alive_srv.append(nsrv_next[0])
            ops.append(['server', nsrv_next[0], rng.choice(racks), [rng.choice(caps) for _ in range(3)],
                        rng.choice(labels), rng.choice([0, 0, 2, 6]), now + rng.choice([50, 500, 100000])])
        elif r < 0.82 and alive_srv:
            ops.append(['reload', rng.choice(alive_srv), [rng.choice(caps) for _ in range(3)],
                        rng.choice(labels), rng.choice([0, 0, 2, 6]), now + rng.choice([50, 500, 100000])])
        elif r < 0.835 and alive_srv and pid in ('C05', 'C03', 'C01'):
            # combined window: instances lose their server (keeping identities) while a group shrinks
            s = rng.choice(alive_srv)
            ops.append(['reload', s, [rng.choice(caps) for _ in range(3)],
                        rng.choice(labels), rng.choice([0, 0, 2, 6]), now + rng.choice([50, 500, 100000])])
            ops.append(['idg', rng.choice(groups), rng.randint(0, 2)])
            now += 2
            ops.append(['tick', now])
            ops.append(['cycle'])
        elif r < 0.84 and alive_srv:
            ops.append(['validuntil', rng.choice(alive_srv), now + rng.choice([10, 60, 1000])])
        elif r < 0.86:
            al = rng.choice(allocs)
            if al[2]:
                ops.append(['alloctraits', al[0], rng.choice([0, 2, 4])])
        elif r < 0.92 and alive_srv and live:
            # a server stops being up while an instance asks for a lease renewal that will fail later
            ops.append(['state', rng.choice(alive_srv), rng.choice(['frozen', 'frozen', 'down'])])
            for a_ in rng.sample(live, min(len(live), rng.randint(1, 3))):
                ops.append(['renew', a_])
            now += rng.choice([20, 40, 60, 200])
            ops.append(['tick', now])
            ops.append(['cycle'])
        else:
            now += 2
            ops.append(['tick', now])
            ops.append(['cycle'])
    now += 2
    ops.append(['tick', now])
    ops.append(['cycle'])
    if pid in ('C01', 'C02') and rng.random() < 0.3:
        # large magnitudes with near-exact fits: capacities k*big, demands d*big + {-1,0,1,2}, big = 2^17
        # (side stream: sometimes k*2^22 - past 2^24, where a 32-bit float no longer holds every integer)
        import random as _random
        big = 2 ** 17 if _random.Random(repr(rng.getstate()[1][:4])).random() < 0.6 else 2 ** 22
        for srv in servers:
            srv[2] = [x * big for x in srv[2]]
        for al in allocs:
            if al[3]:
                al[3] = [x * big for x in al[3]]
        for op in ops:
            if op[0] == 'app':
                op[3] = [(x * big + rng.choice([0, 0, 0, 1, -1, 2])) if x else 0 for x in op[3]]
            elif op[0] == 'server':
                op[3] = [x * big for x in op[3]]
            elif op[0] == 'reload':
                op[2] = [x * big for x in op[2]]
    case = {'buckets': buckets, 'servers': servers, 'allocs': allocs, 'ops': ops}
    import random as _random2
    if _random2.Random(repr(rng.getstate()[1][:4]) + 'lvl').random() < 0.15:
        case['rackname'] = 'Rack'       # (side stream) level names are taken verbatim from the bucket records
    if pid == 'C02':
        # probe mode: drive to a fixed point, then one probe and one cycle (see run_impl)
        aff = rng.randrange(4)
        case['probe'] = ['app', 9000, rng.choice([1, 10, 50, 100]),
                         [rng.choice([1, 2, 3, 4, 5, 8, 10]) for _ in range(3)], aff, aff_limits[aff],
                         rng.choice([0, 30, None]), rng.choice([0, 0, 40, 100]),
                         rng.choice([None, None, 1]), False, rng.choice([0, 0, 2, 4]),
                         rng.choice([a for a in allocs if a[6] is None])[0]]
        same = [t for t in made if t[8] is None]
        if same and rng.random() < 0.4:
            # the probe shares the placement shape of earlier (possibly pending) instances and asks for less:
            # what the feasibility tracker recorded for them must not hide a server that fits the probe
            t = rng.choice(same)
            pr = case['probe']
            pr[3] = [max(1, d - rng.choice([0, 1, 2, 4])) for d in t[3]]
            pr[4], pr[5], pr[7], pr[10], pr[11] = t[4], t[5], t[7], t[10], t[11]
            pr[8] = None
        elif rng.random() < 0.25:
            # a probe that asks for nothing in one dimension (its allocation may reserve nothing there either)
            case['probe'][3][rng.randrange(3)] = 0
    return case


def case_ops(case):
    return case['ops']


def with_ops(case, ops):
    c = dict(case)
    c['ops'] = list(ops)
    return c


# --------------------------------------------------------------------------------------------
# running the real code
# --------------------------------------------------------------------------------------------

class World:
    """The real Cell plus the interning tables the dump needs."""

    def __init__(self, scheduler, case):
        self.sch = scheduler
        self.now = 0
        self.rackname = case.get('rackname', 'rack')
        self.spec_limits = {}
        self.cell = scheduler.Cell('cell')
        self.nodes = {ROOT: self.cell}        # bucket id -> Bucket
        self.node_id = {id(self.cell): ROOT}
        self.servers = {}                     # sid -> Server (attached)
        self.allocs = {}                      # alid -> Allocation
        self.alloc_id = {}
        self.alloc_keys = {}
        self.apps = {}                        # aid -> Application
        self.app_id = {}
        self.labels = {0: None, 1: 'p2'}
        self.label_id = {None: 0, 'p2': 1}
        self.queues = []
        self.choices = []
        # what the history itself says (kept by the harness, never read back from the objects under test): the
        # monitors use these instead of fields a defect could have corrupted
        self.spec_lease = {}                  # app name -> lease asked for
        self.spec_bl = {}                     # app name -> blacklisted, as the history last said
        self.shadow_state = {}                # server name -> (state, since) according to the ops applied

    def alloc_line(self, alid):
        al = self.allocs[alid]
        key = self.alloc_keys.setdefault(al.constraints, len(self.alloc_keys))
        return 'alloc %d %d %d %d' % (alid, self.label_id[al.label], al.traits, key)

    # ---- canonical dump of the real objects (same format as drivers/Sched.lean) ----
    def vec(self, v):
        return ','.join(str(int(x)) for x in v)

    def counter(self, c, key=lambda k: k):
        items = sorted((key(k), v) for k, v in c.items() if v != 0)
        return ','.join('%d=%d' % kv for kv in items) or '-'

    def dump(self):
        out = []
        for sid in sorted(self.servers):
            s = self.servers[sid]
            apps = sorted(self.app_id[n] for n in s.apps)
            out.append('S:%d:%s:%s:%s:%d:%d:%s' % (
                sid, self.vec(s.free_capacity), ','.join(map(str, apps)) or '-', s.state.value,
                int(s.get_state()[1]), int(s.valid_until), self.counter(s.affinity_counters, int)))
        for aid in sorted(self.apps):
            a = self.apps[aid]
            if a.name not in self.cell.apps:
                continue
            srv = 'none' if a.server is None else a.server[1:]
            out.append('A:%d:%s:%s:%s:%d%d%d%d:%d:%d' % (
                aid, srv, 'none' if a.identity is None else a.identity,
                'none' if a.placement_expiry is None else int(a.placement_expiry),
                a.evicted, a.unschedule, a.renew, a.blacklisted, a.priority,
                self.alloc_id[id(a.allocation)]))
        for bid in sorted(self.nodes):
            b = self.nodes[bid]
            if bid != ROOT and b.parent is None:
                continue
            cur = sorted((int(k), v.current_idx) for k, v in b.affinity_strategies.items())
            out.append('B:%d:%s:%d:%s:%s:%s' % (
                bid, self.vec(b.free_capacity), b.traits.traits,
                ','.join(str(x) for x in sorted(self.label_id[l] for l in b.labels)) or '-',
                self.counter(b.affinity_counters, int),
                ','.join('%d=%d' % kv for kv in cur) or '-'))
        for gname in sorted(self.cell.identity_groups):
            g = self.cell.identity_groups[gname]
            out.append('G:%d:%d:%s' % (int(gname[1:]), g.count, ','.join(map(str, sorted(g.available))) or '-'))
        return ';'.join(out)


def _install_capture(world):
    sch = world.sch
    orig_fp = sch.Cell._find_placements
    orig_acq = sch.IdentityGroup.acquire

    def fp(self, queue, servers):
        world.queues.append([(world.app_id[a.name], a.final_rank == sch._UNPLACED_RANK) for a in queue])
        return orig_fp(self, queue, servers)

    def acq(self):
        r = orig_acq(self)
        if r is not None:
            world.choices.append(r)
        return r
    return mock.patch.object(sch.Cell, '_find_placements', fp), mock.patch.object(sch.IdentityGroup, 'acquire', acq)


def _owner_allocs(world):
    """app name -> (partition label, allocation) of the allocation that queues it, found by walking the
    partitions' allocation trees (independent of `app.allocation`)."""
    out = {}

    def walk(label, al):
        for an in al.apps:
            out[an] = (label, al)
        for sub in al.sub_allocations.values():
            walk(label, sub)
    for label, part in world.cell.partitions.items():
        walk(label, part.allocation)
    return out


def _app_constraints(world, owners, a):
    """(partition label, traits) the instance is bound to: from the allocation that queues it."""
    label, al = owners.get(a.name, (None, None))
    if al is None:
        al = a.allocation
        label = al.label if al is not None else None
    traits = a.traits if a.allocation is al else (getattr(a, '_traits', 0) | (al.traits if al is not None else 0))
    return label, traits


def _is_bl(world, a):
    """Blacklisted according to the history (the stored blacklist / the last `bl` step), not the flag."""
    f = getattr(world, 'blacklist_spec', None)
    if f is not None:
        return f(a.name)
    return getattr(world, 'spec_bl', {}).get(a.name, a.blacklisted)


def _since(world, srv):
    sh = getattr(world, 'shadow_state', {}).get(srv.name)
    if sh is not None and sh[0] == srv.state.value:
        return sh[1]
    return srv.get_state()[1]


def _snapshot(world):
    """State needed by the monitors at cycle start."""
    sch = world.sch
    snap = {}
    owners = _owner_allocs(world)
    for aid, a in world.apps.items():
        if a.name not in world.cell.apps:
            continue
        srv = world.cell.members().get(a.server) if a.server else None
        g = a.identity_group_ref
        label, traits = _app_constraints(world, owners, a)
        snap[aid] = {
            'server': a.server, 'expiry': a.placement_expiry, 'bl': a.blacklisted or _is_bl(world, a), 'renew': a.renew,
            'unsched': (world.unsched_spec(a.name) if hasattr(world, 'unsched_spec') else a.unschedule),
            'srv_state': srv.state.value if srv else None,
            'srv_since': _since(world, srv) if srv else None,
            'srv_since_lb': getattr(world, 'down_since_lb', {}).get(srv.name) if srv else None,
            'eligible': bool(srv) and label in srv.labels and
            (traits == 0 or srv.traits.has(traits)),
            'id_invalid': (a.identity is not None and g is not None and a.identity >= g.count),
            'retention': a.data_retention_timeout,
            'renew_fails': bool(srv) and a.renew and not srv.check_app_lifetime(a),
        }
    return snap


def _apps_under(world, node):
    sch = world.sch
    if isinstance(node, sch.Server):
        return list(node.apps.values())
    r = []
    for ch in node.children_iter():
        r += _apps_under(world, ch)
    return r


def monitors(world, pid, snap, queues, run, hist_tags):
    """Direct statements of the properties on the real objects, after a completed cycle."""
    sch = world.sch
    cell = world.cell
    members = cell.members()
    H = lambda clause, site, detail: run.hits.append(fw.Hit(clause=clause, call_site=site, detail=str(detail)[:400]))
    unplaced = set()
    pos = {}
    for qi, q in enumerate(queues):
        for i, (aid, up) in enumerate(q):
            pos[aid] = (qi, i)
            if up:
                unplaced.add(aid)
    after = {aid: world.apps[aid] for aid in snap if world.apps[aid].name in cell.apps}
    gained = {aid for aid, a in after.items() if a.server is not None and a.server != snap[aid]['server']}

    if pid == 'C01':
        seen = {}
        for sn, s in members.items():
            tot = np.zeros(3)
            for an, a in s.apps.items():
                tot += a.demand
                if a.server != sn:
                    H('views-disagree', 'cycle', (an, a.server, sn))
                if an in seen:
                    H('placed-twice', 'cycle', (an, seen[an], sn))
                seen[an] = sn
            if any(s.init_capacity - tot != s.free_capacity):
                H('free-not-capacity-minus-demand', 'cycle', (sn, list(s.free_capacity), list(s.init_capacity - tot)))
            if any(tot > s.init_capacity):
                H('oversubscribed', 'cycle', (sn, list(tot), list(s.init_capacity)))
        for an, a in cell.apps.items():
            if a.server and (a.server not in members or an not in members[a.server].apps):
                H('views-disagree', 'cycle', (an, a.server))
    elif pid == 'C02':
        # second sentence of the property, on every state a cycle leaves: what a bucket aggregates over the
        # servers below it (partition labels, traits, free capacity - the three things Bucket-level
        # check_app_constraints reads) never hides an up server
        for sn, s in members.items():
            if s.state is not sch.State.up:
                continue
            b = s.parent
            while b is not None:
                if not set(s.labels) <= set(b.labels):
                    H('aggregate-hides-server', 'labels', (sn, b.name, sorted(map(str, s.labels)), sorted(map(str, b.labels))))
                if not b.traits.has(s.traits.traits):
                    H('aggregate-hides-server', 'traits', (sn, b.name, s.traits.traits, b.traits.traits))
                if any(s.free_capacity > b.free_capacity):
                    H('aggregate-hides-server', 'capacity', (sn, b.name, list(s.free_capacity), list(b.free_capacity)))
                b = b.parent
    elif pid == 'C03':
        owners = _owner_allocs(world)
        spec_lease = getattr(world, 'spec_lease', {})
        for aid, a in after.items():
            if a.server is None:
                continue
            s = members.get(a.server)
            if s is None:
                continue
            # partition and traits of the allocation that queues the instance; the lease it asked for
            label, traits = _app_constraints(world, owners, a)
            lease = spec_lease.get(a.name, a.lease)
            if label not in s.labels:
                H('wrong-partition', 'after-cycle', (a.name, a.server))
            if traits != 0 and not s.traits.has(traits):
                H('missing-traits', 'after-cycle', (a.name, a.server))
            tn = getattr(world, 'trait_names', None)
            if tn is not None:
                # by NAME, from the stored manifest and server record (independent of the bit encoding)
                r_ = tn(a.name, a.server)
                if r_ is not None and not r_[0] <= r_[1]:
                    H('missing-traits', 'after-cycle', (a.name, a.server, sorted(r_[0]), sorted(r_[1])))
            pn = getattr(world, 'partition_names', None)
            if pn is not None:
                r_ = pn(a.name, a.server)
                if r_ is not None and r_[0] != r_[1]:
                    H('wrong-partition', 'after-cycle', (a.name, a.server, r_[0], r_[1]))
            if aid in gained:
                if s.state is not sch.State.up:
                    H('assigned-to-non-up', 'assign', (a.name, a.server, s.state.value))
                if lease and not (world.now + lease < s.valid_until):
                    H('lease-beyond-reboot', 'assign', (a.name, a.server, lease, s.valid_until))
    elif pid == 'C04':
        def walk(node):
            cnt = collections.Counter()
            if isinstance(node, sch.Server):
                for a in node.apps.values():
                    cnt[a.affinity.name] += 1
            else:
                for ch in node.children_iter():
                    cnt += walk(ch)
            for k in set(cnt) | set(k for k, v in node.affinity_counters.items() if v):
                if cnt[k] != node.affinity_counters[k]:
                    H('counter-wrong', 'cycle', (node.name, k, cnt[k], node.affinity_counters[k]))
            byaff = collections.defaultdict(list)
            aff_of = getattr(world, 'affinity_of', None)
            for a in _apps_under(world, node):
                # the affinity the instance was DECLARED with (the stored manifest), where the world knows it
                byaff[aff_of(a) if aff_of is not None else a.affinity.name].append(a)
            for k, l in byaff.items():
                lvl = getattr(world, 'level_of', lambda n_: n_.level)(node)
                decl = getattr(world, 'spec_limits', None)
                lim = min((decl[a.name] if decl is not None and a.name in decl else dict(a.affinity.limits)).get(
                    lvl, float('inf')) for a in l)
                if len(l) > lim:
                    H('limit-exceeded', 'cycle', (node.name, lvl, k, len(l), lim))
            return cnt
        walk(cell)
    elif pid == 'C05':
        # by group *name* (what is published), not by the group object an instance happens to reference
        bygroup = collections.defaultdict(list)
        for a in cell.apps.values():
            if a.identity_group:
                bygroup[a.identity_group].append(a)
        gc_ = getattr(world, 'group_count', None)
        for gname, l_apps in bygroup.items():
            g = cell.identity_groups.get(gname)
            cnt = None if g is None else g.count
            if gc_ is not None and gc_(gname) is not None:
                cnt = gc_(gname)             # the configured count, from the stored record
            held = collections.defaultdict(list)
            for a in l_apps:
                if a.identity is not None:
                    held[a.identity].append(a.name)
                    if cnt is None or a.identity >= cnt:
                        H('identity-out-of-range', 'cycle', (a.name, a.identity, cnt))
                    if not a.server:
                        H('unplaced-holds-identity', 'cycle', (a.name, a.identity))
                if a.server and a.identity is None and a.identity_group_ref is not None:
                    H('placed-without-identity', 'cycle', (a.name,))
            for k, l in held.items():
                if len(l) > 1:
                    H('duplicate-identity', 'cycle', (gname, k, l))
    elif pid == 'C07':
        for aid, st in snap.items():
            if aid not in after or st['server'] is None or st['srv_state'] != 'up':
                continue
            if st['bl'] or aid in unplaced or st['id_invalid'] or st['renew_fails'] or not st['eligible']:
                continue
            a = after[aid]
            if a.server == st['server']:
                continue
            if aid not in pos:
                continue
            qi, i = pos[aid]
            ahead = {x for x, (q2, j) in pos.items() if q2 == qi and j < i}
            if not (ahead & gained):
                H('displaced-without-gain-ahead', 'cycle', (a.name, st['server'], a.server))
    elif pid == 'C08':
        for aid, st in snap.items():
            if aid not in after or st['server'] is None:
                continue
            a = after[aid]
            excluded = st['bl'] or aid in unplaced or st['id_invalid'] or not st['eligible'] or st['renew']
            if st['srv_state'] == 'down' and not excluded:
                ret = st['retention']
                expires_at = 0 if ret is None else st['srv_since'] + ret
                lb = st.get('srv_since_lb')
                if ret is not None and lb is not None and world.now < lb + ret and a.server != st['server']:
                    # the outage began no earlier than `lb` (when the presence node went away)
                    H('lost-placement-within-retention', 'cycle', (a.name, st['server'], a.server, world.now, lb + ret))
                elif world.now < expires_at and a.server != st['server']:
                    H('lost-placement-within-retention', 'cycle', (a.name, st['server'], a.server, world.now, expires_at))
                if world.now >= expires_at and a.server == st['server']:
                    H('kept-placement-after-retention', 'cycle', (a.name, st['server'], world.now, expires_at))
            if st['srv_state'] == 'frozen' and not excluded:
                if st['unsched']:
                    if a.server == st['server']:
                        H('frozen-kept-unscheduled', 'cycle', (a.name, st['server']))
                elif a.server != st['server']:
                    H('frozen-lost-app', 'cycle', (a.name, st['server'], a.server))
        for aid in gained:
            s = members.get(after[aid].server)
            if s is not None and s.state is not sch.State.up:
                H('new-app-on-non-up-server', 'cycle', (after[aid].name, s.name, s.state.value))
        for aid, a in after.items():
            if (a.blacklisted or _is_bl(world, a)) and a.server is not None:
                H('blacklisted-placed', 'cycle', (a.name, a.server))


def _oracle_fits(world, app):
    """C02 oracle: scan leaf servers directly (no aggregates)."""
    sch = world.sch
    out = []
    for sn, s in world.cell.members().items():
        if s.state is not sch.State.up:
            continue
        if app.allocation.label not in s.labels:
            continue
        if app.traits != 0 and not s.traits.has(app.traits):
            continue
        if app.lease and not (world.now + app.lease < s.valid_until):
            continue
        if any(app.demand > s.free_capacity):
            continue
        node = s
        ok = True
        while node is not None:
            lim = dict(app.affinity.limits).get(node.level, float('inf'))
            if not node.affinity_counters[app.affinity.name] < lim:
                ok = False
                break
            node = node.parent
        if ok:
            out.append(sn)
    return out


def run_impl(case, pid):
    from treadmill import scheduler
    scheduler.DIMENSION_COUNT = 3
    run = fw.ImplRun()
    w = World(scheduler, case)
    p1, p2 = _install_capture(w)
    stats = collections.Counter()
    with mock.patch('time.time', lambda: float(w.now)), p1, p2:
        try:
            _run(case, pid, run, w, stats)
        except _Abort:
            pass
    if pid == 'C01':
        _units_monitor(case, run)
    for k, v in stats.items():
        if v:
            run.tags.add(k)
    nt = {
        'C01': stats['evict'] and (stats['restore'] or stats['rmserver'] or stats['reload']),
        'C03': stats['moved-partition'] or stats['alloctraits-placed'] or stats['lease-place'],
        'C04': stats['limit-evict-or-restore'],
        'C05': stats['idg-resize-held'],
        'C07': stats['restore'] or stats['multi-victim'],
        'C08': stats['nonup-holding'],
        'C02': stats['probe-boundary'],
    }
    run.nontrivial = bool(nt.get(pid))
    return run


def _units_monitor(case, run):
    """C01, unit clause, on the real parsers: the same quantity in different spellings."""
    import hashlib
    import random as _random
    from treadmill import utils
    from treadmill.scheduler import loader
    seed = int(hashlib.sha1(repr(case['ops'][:8]).encode()).hexdigest()[:8], 16)
    rng = _random.Random(seed)
    H = lambda clause, detail: run.hits.append(fw.Hit(clause=clause, call_site='units', detail=str(detail)[:300]))
    for _ in range(6):
        n = rng.choice([0, 1, 2, 3, 7, 10, 100, 1023, 1024, 4096, rng.randint(0, 10 ** 6)])
        for big, small in (('G', 'M'), ('T', 'G'), ('M', 'K')):
            for f in (utils.megabytes, utils.kilobytes, utils.size_to_bytes):
                a, b = f('%d%s' % (n, big)), f('%d%s' % (1024 * n, small))
                if a != b:
                    H('unit-spelling-differs', (f.__name__, n, big, small, a, b))
            u = rng.choice([big, big.lower()])
            if utils.size_to_bytes('%d%s' % (n, u)) != utils.size_to_bytes('%d%s' % (n, big)):
                H('unit-case-differs', (n, u))
        if not (utils.cpu_units('%d%%' % n) == utils.cpu_units('%d' % n) == n):
            H('cpu-spelling-differs', (n, utils.cpu_units('%d%%' % n), utils.cpu_units('%d' % n)))
        r1 = loader.resources({'memory': '%dG' % n, 'cpu': '%d%%' % n, 'disk': '%dM' % (1024 * n)})
        r2 = loader.resources({'memory': '%dM' % (1024 * n), 'cpu': '%d' % n, 'disk': '%dG' % n})
        if r1 != r2 or r1 != [1024 * n, n, 1024 * n]:
            H('resources-vector-differs', (n, r1, r2))
    run.tags.add('units')


class _Abort(Exception):
    pass


def _emit(run, w, line, fn):
    """Run `fn` on the real cell; on AssertionError/KeyError the model must abort as well."""
    try:
        fn()
    except (AssertionError, KeyError, IndexError) as exc:
        run.op(line, 'abort')
        run.tags.add('abort')
        raise _Abort(repr(exc))
    run.op(line, w.dump())


def cmp(exp, got):
    if exp == 'abort':
        return got.startswith('abort:')
    return exp == got


def _mk_app(w, op):
    sch = w.sch
    _, aid, prio, demand, aff, limits, ret, lease, grp, once, traits, alid = op
    # first-come stamps increase with creation; every fifth instance that follows one of the same allocation
    # arrives "in the same microsecond" and shares its stamp (inside one allocation the name breaks the tie;
    # across allocations the real merge would have to compare the instances themselves)
    if not (aid % 5 == 0 and getattr(w, 'last_alid', None) == alid and getattr(w, 'now_order', 0) > 0):
        w.now_order = getattr(w, 'now_order', 0) + 1
    else:
        w.stats_tied = getattr(w, 'stats_tied', 0) + 1
    w.last_alid = alid
    rackname = getattr(w, 'rackname', 'rack')
    declared = {(rackname if k == 'rack' else k): v for k, v in limits.items()}
    if not hasattr(w, 'spec_limits'):
        w.spec_limits = {}
    app = sch.Application(aname(aid, aff), prio, demand, str(aff),
                          affinity_limits=dict(declared) or None,
                          data_retention_timeout=ret, lease=lease,
                          identity_group=('g%d' % grp) if grp else None,
                          traits=traits, schedule_once=bool(once))
    app.global_order = w.now_order       # deterministic FIFO tie-break
    w.spec_limits[app.name] = declared          # the monitor's record of what the instance declares
    w.spec_lease[app.name] = lease
    w.spec_bl[app.name] = False
    return app


def _app_line(w, op):
    _, aid, prio, demand, aff, limits, ret, lease, grp, once, traits, alid = op
    lim = ','.join('%d:%d' % (LEVELS[k], v) for k, v in sorted(limits.items(), key=lambda kv: LEVELS[kv[0]])) or '-'
    return 'app %d %d %s %d %s %s %d %s %d %d %d' % (
        aid, prio, ','.join(map(str, demand)), aff, lim, 'none' if ret is None else ret, lease,
        grp if grp else 'none', 1 if once else 0, traits, alid)


def _add_server(w, sid, pid_, cap, label, traits, vu):
    s = w.sch.Server(sname(sid), cap, valid_until=vu, label=w.labels[label], traits=traits)
    w.nodes[pid_].add_node(s)
    w.servers[sid] = s
    w.shadow_state[s.name] = ('up', w.now)


def _cycle(w, run, pid, stats):
    sch = w.sch
    w.queues = []
    w.choices = []
    snap = _snapshot(w)
    before_srv = {aid: st['server'] for aid, st in snap.items()}
    # attribution of put/restore call sites for the non-triviality rules
    orig_put = sch.Server.put
    orig_restore = sch.Server.restore
    evict_count = [0]
    state = {'in_restore': 0}

    def put(self, app):
        rc = orig_put(self, app)
        caller = sys._getframe(1).f_code.co_name
        if rc and caller in ('_find_placements', 'restore'):
            lim = dict(app.affinity.limits)
            if any(k != 'server' and v != float('inf') for k, v in lim.items()):
                stats['limit-evict-or-restore'] += 1
            if caller == '_find_placements':
                stats['evict'] += 1
        return rc

    def restore(self, app, placement_expiry=None):
        rc = orig_restore(self, app, placement_expiry)
        if rc:
            stats['restore'] += 1
        return rc
    line_holder = {}

    def do():
        with mock.patch.object(sch.Server, 'put', put), mock.patch.object(sch.Server, 'restore', restore):
            w.cell.schedule()
    # the line needs queues/choices which are only known after the real run
    try:
        do()
        aborted = False
    except (AssertionError, KeyError, IndexError) as exc:
        aborted = repr(exc)
    except TypeError as exc:
        if getattr(w, 'stats_tied', 0) and "'<' not supported" in str(exc):
            # two instances of DIFFERENT allocations share a stamp and tie on rank, utilisation and state: the
            # real merge of the allocation queues compares the instances themselves and the cycle dies
            # (no queue, no placement change: nothing for the model to follow) - the history ends here
            run.tags.add('stamp-tie-across-allocations')
            raise _Abort(repr(exc))
        raise
    qs = '|'.join(','.join('%d:%d' % (a, 1 if u else 0) for a, u in q) or '-' for q in w.queues) or 'none'
    line = 'cycle %s %s' % (qs, ','.join(map(str, w.choices)) or '-')
    if aborted:
        run.op(line, 'abort')
        run.tags.add('abort')
        raise _Abort(aborted)
    run.op(line, w.dump())
    stats['cycles'] += 1
    victims = sum(1 for aid, st in snap.items() if st['server'] and w.apps[aid].name in w.cell.apps and
                  w.apps[aid].server != st['server'])
    if victims >= 2:
        stats['multi-victim'] += 1
    for aid, st in snap.items():
        if st['srv_state'] in ('down', 'frozen') and st['server']:
            stats['nonup-holding'] += 1
        if st['server'] and not st['eligible']:
            stats['moved-partition'] += 1
    for aid, a in w.apps.items():
        if a.name in w.cell.apps and a.server and a.lease and before_srv.get(aid) != a.server:
            stats['lease-place'] += 1
    monitors(w, pid, snap, w.queues, run, stats)
    return snap


def _run(case, pid, run, w, stats):
    sch = w.sch
    run.op('init %d %d' % (ROOT, LEVELS['cell']), 'ok')
    for bid, pid_, level in case['buckets']:
        def f(bid=bid, pid_=pid_, level=level):
            b = sch.Bucket('b%d' % bid, level=(case.get('rackname', 'rack') if level == LEVELS['rack']
                                               else LEVEL_NAMES[level]))
            w.nodes[bid] = b
            w.nodes[pid_].add_node(b)
        _emit(run, w, 'bucket %d %d %d' % (bid, pid_, level), f)
    for sid, pid_, cap, label, traits, vu in case['servers']:
        _emit(run, w, 'server %d %d %s %d %d %d' % (sid, pid_, ','.join(map(str, cap)), label, traits, vu),
              lambda: _add_server(w, sid, pid_, cap, label, traits, vu))
    for alid, label, path, reserved, rank, radj, maxu, traits in case['allocs']:
        al = w.cell.partitions[w.labels[label]].allocation
        for part in path:
            al = al.get_sub_alloc(part)
        if path:
            al.update(reserved, rank, radj, maxu)
            al.set_traits(traits)
        w.allocs[alid] = al
        w.alloc_id[id(al)] = alid
        _emit(run, w, w.alloc_line(alid), lambda: None)

    def apply(op):
        k = op[0]
        if k == 'app':
            aid = op[1]
            app = _mk_app(w, op)
            w.apps[aid] = app
            w.app_id[app.name] = aid
            _emit(run, w, _app_line(w, op), lambda: w.cell.add_app(w.allocs[op[11]], app))
        elif k == 'rmapp':
            a = w.apps.get(op[1])
            if a is None or a.name not in w.cell.apps:
                return
            _emit(run, w, 'rmapp %d' % op[1], lambda: w.cell.remove_app(a.name))
        elif k == 'updapp':
            _, aid, alid, prio, ret, bl = op
            a = w.apps.get(aid)
            if a is None or a.name not in w.cell.apps:
                return

            w.spec_bl[a.name] = bool(bl)

            def f():
                a.priority = prio
                a.data_retention_timeout = ret
                a.blacklisted = bl
                w.cell.add_app(w.allocs[alid], a)
            _emit(run, w, 'updapp %d %d %d %s %d' % (aid, alid, prio, 'none' if ret is None else ret, bl), f)
        elif k in ('prio', 'bl', 'unsched', 'renew'):
            a = w.apps.get(op[1])
            if a is None or a.name not in w.cell.apps:
                return
            if k == 'prio':
                _emit(run, w, 'prio %d %d' % (op[1], op[2]), lambda: setattr(a, 'priority', op[2]))
            elif k == 'bl':
                w.spec_bl[a.name] = bool(op[2])
                _emit(run, w, 'bl %d %d' % (op[1], op[2]), lambda: setattr(a, 'blacklisted', bool(op[2])))
            elif k == 'unsched':
                _emit(run, w, 'unsched %d 1' % op[1], lambda: setattr(a, 'unschedule', True))
            else:
                if not a.server:
                    return
                _emit(run, w, 'renew %d 1' % op[1], lambda: setattr(a, 'renew', True))
        elif k == 'state':
            s = w.servers.get(op[1])
            if s is None:
                return
            if w.shadow_state.get(s.name, (None, None))[0] != op[2]:
                w.shadow_state[s.name] = (op[2], w.now)
            _emit(run, w, 'state %d %s %d' % (op[1], op[2], w.now),
                  lambda: setattr(s, 'state', sch.State(op[2])))
        elif k == 'tick':
            w.now = op[1]
            _emit(run, w, 'tick %d' % op[1], lambda: None)
        elif k == 'idg':
            held = any(a.identity is not None and a.identity_group == 'g%d' % op[1] for a in w.cell.apps.values())
            pend = any(a.server is None and a.identity_group == 'g%d' % op[1] for a in w.cell.apps.values())
            if held and pend:
                stats['idg-resize-held'] += 1
            _emit(run, w, 'idg %d %d' % (op[1], op[2]), lambda: w.cell.configure_identity_group('g%d' % op[1], op[2]))
        elif k == 'rmidg':
            _emit(run, w, 'rmidg %d' % op[1], lambda: w.cell.remove_identity_group('g%d' % op[1]))
        elif k == 'rmserver':
            s = w.servers.pop(op[1], None)
            if s is None:
                return
            stats['rmserver'] += 1

            def f():
                s.remove_all()
                s.parent.remove_node(s)
            _emit(run, w, 'rmserver %d' % op[1], f)
        elif k == 'detach':
            s = w.servers.pop(op[1], None)
            if s is None:
                return
            _emit(run, w, 'detach %d' % op[1], lambda: s.parent.remove_node(s))
        elif k == 'server':
            _, sid, pid_, cap, label, traits, vu = op
            _emit(run, w, 'server %d %d %s %d %d %d' % (sid, pid_, ','.join(map(str, cap)), label, traits, vu),
                  lambda: _add_server(w, sid, pid_, cap, label, traits, vu))
        elif k == 'reload':
            # Loader.reload_server with a changed record: remove_server, load_server, restore_placement
            _, sid, cap, label, traits, vu = op
            s = w.servers.get(sid)
            if s is None:
                return
            stats['reload'] += 1
            placed = [(w.app_id[n], a.placement_expiry) for n, a in s.apps.items()]
            parent_id = [b for b, n in w.nodes.items() if n is s.parent][0]
            state, since = s.get_state()
            shadow = w.shadow_state.get(s.name)
            w.servers.pop(sid)

            def f():
                s.remove_all()
                s.parent.remove_node(s)
            _emit(run, w, 'rmserver %d' % sid, f)
            _emit(run, w, 'server %d %d %s %d %d %d' % (sid, parent_id, ','.join(map(str, cap)), label, traits, vu),
                  lambda: _add_server(w, sid, parent_id, cap, label, traits, vu))
            ns = w.servers[sid]
            _emit(run, w, 'state %d %s %d' % (sid, state.value, int(since)), lambda: ns.set_state(state, since))
            if shadow is not None:
                w.shadow_state[ns.name] = shadow        # the reloaded server keeps the state it had
            for aid, exp in placed:
                a = w.apps[aid]
                if a.name not in w.cell.apps:
                    continue
                if a.schedule_once:
                    continue
                if exp is not None and aid % 2 == 0:
                    _emit(run, w, 'restore %d %d %d' % (aid, sid, int(exp)), lambda: ns.restore(a, exp))
                else:
                    _emit(run, w, 'put %d %d' % (aid, sid), lambda: ns.put(a))
        elif k == 'validuntil':
            s = w.servers.get(op[1])
            if s is None:
                return
            _emit(run, w, 'validuntil %d %d' % (op[1], op[2]), lambda: setattr(s, 'valid_until', op[2]))
        elif k == 'alloctraits':
            al = w.allocs[op[1]]
            if any(a.server for a in al.apps.values()):
                stats['alloctraits-placed'] += 1
            al.set_traits(op[2])
            _emit(run, w, w.alloc_line(op[1]), lambda: None)
        elif k == 'cycle':
            _cycle(w, run, pid, stats)

    for op in case['ops']:
        apply(op)

    if pid == 'C02' and 'probe' in case:
        # drive to a fixed point
        for _ in range(8):
            before = {a.name: (a.server, a.identity) for a in w.cell.apps.values()}
            _cycle(w, run, pid, stats)
            after = {a.name: (a.server, a.identity) for a in w.cell.apps.values()}
            if before == after:
                break
        else:
            run.tags.add('no-fixed-point')
            return
        op = case['probe']
        apply(op)
        probe = w.apps[op[1]]
        fits = _oracle_fits(w, probe)
        g = probe.identity_group_ref
        ident_free = g is None or len(g.available) > 0
        _cycle(w, run, pid, stats)
        # "beyond its allocation's utilisation cap" is only an excuse when the probe's allocation declares a cap
        # (the flag is the code's own ranking: a defect that ranks a fitting instance as unplaceable must not hide itself)
        capped = any(a[0] == op[11] and a[6] is not None for a in case['allocs'])
        over_cap = capped and any(aid == op[1] and up for q in w.queues for aid, up in q)
        if len(fits) == 1:
            stats['probe-boundary'] += 1
        run.tags.add('probe-fits' if fits else 'probe-nofit')
        if fits and ident_free and not over_cap and not probe.blacklisted and probe.server is None:
            run.hits.append(fw.Hit(clause='fitting-probe-left-pending', call_site='cycle',
                                   detail='%s fits %s' % (probe.name, fits)))
