"""C11: two instances of one affinity name with different affinity_limits.  The running master placed
the strict one first; restore_placement restores in name order, the rack counter reaches the strict
instance's limit before its turn, Server.restore fails and the record of a running instance on a
healthy server is deleted at fail-over."""
from repro_common import World

w = World()
w.base(servers=('s1',))
w.put('/scheduled/foo.bar#0000000002', {'memory': '1G', 'cpu': '10%', 'disk': '1G', 'affinity': 'foo.bar',
                                       'affinity_limits': {'rack': 1}})
m = w.new_master()
m.load_model()
m.init_schedule()
w.now += 3
w.put('/scheduled/foo.bar#0000000001', {'memory': '1G', 'cpu': '10%', 'disk': '1G', 'affinity': 'foo.bar'})
m.process_scheduled(['foo.bar#0000000001', 'foo.bar#0000000002'])
w.cycle(m)
print('published:', {a.name: a.server for a in m.cell.apps.values()}, sorted(w.records()))
w.now += 5
m2 = w.new_master()
m2.load_model()
print('reloaded :', {a.name: a.server for a in m2.cell.apps.values()}, sorted(w.records()))
