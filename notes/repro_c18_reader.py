"""Reproducer: TraceLoop delivers events twice when two events of an instance share a timestamp string and are
both in a snapshot batch and in the live listing (archiver stopped between snapshot upload and the deletes)."""
import sys
sys.path.insert(0, '/repo/lib/python')
from treadmill.trace import _zk


class Ev:
    def set(self): pass
    def wait(self, timeout=None): return True


class Zk:
    class handler:
        @staticmethod
        def event_object(): return Ev()


class Loop(_zk.TraceLoop):
    def __init__(self):
        super().__init__(Zk(), 'p.a#1', None)
        self.delivered = []
    def run(self, snapshot=False, ctx=None): pass
    def _process_event(self, object_name, timestamp, source, event_type, event_data, ctx):
        self.delivered.append((timestamp, source, event_type, event_data))


snapshot = ['p.a#1,5,h1,pending,a', 'p.a#1,5,h1,pending,b']      # download_batch of the snapshot
live = ['p.a#1,5,h1,pending,a', 'p.a#1,5,h1,pending,b']          # the deletes did not happen yet
loop = Loop()
loop._process_events(snapshot, None)
loop._process_events(live, None)
print(loop.delivered)
assert [d[3] for d in loop.delivered] == ['a', 'b', 'a', 'b']
# listing order: newer snapshot first loses the older one's events
loop = Loop()
loop._process_events(['p.a#1,7,h1,killed,x'], None)
loop._process_events(['p.a#1,5,h1,pending,a'], None)
print(loop.delivered)
assert [d[0] for d in loop.delivered] == ['7']
# timestamp strings of different width
loop = Loop()
loop._process_events(['p.a#1,9,h1,pending,a'], None)
loop._process_events(['p.a#1,10,h1,killed,x'], None)
print(loop.delivered)
assert [d[0] for d in loop.delivered] == ['9']
print('reproduced')
