import time
from treadmill import scheduler
scheduler.DIMENSION_COUNT=3
T=time.time()+1e6
cell=scheduler.Cell('top')
rack=scheduler.Bucket('rack:1',level='rack'); cell.add_node(rack)
for n in ('s1','s2','s3'):
    rack.add_node(scheduler.Server(n,[10,10,10],valid_until=T,label=None))
alloc=cell.partitions[None].allocation
cell.configure_identity_group('g',3)
apps=[scheduler.Application('p.a#%d'%i,10,[1,1,1],'p.a',identity_group='g') for i in range(3)]
for a in apps: cell.add_app(alloc,a)
cell.schedule()
print([(a.name,a.server,a.identity) for a in apps], cell.identity_groups['g'].available)
cell.configure_identity_group('g',1)
cell.configure_identity_group('g',3)
print('avail after shrink+grow', cell.identity_groups['g'].available)
b=scheduler.Application('p.a#9',10,[1,1,1],'p.a',identity_group='g'); cell.add_app(alloc,b)
cell.schedule()
print([(a.name,a.server,a.identity) for a in apps+[b]], cell.identity_groups['g'].available)
