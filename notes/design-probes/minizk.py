"""Minimal in-memory kazoo-like client for design probes."""
import collections, kazoo.exceptions as ke
Stat=collections.namedtuple('Stat','ctime mtime last_modified owner_session_id version')
class Cut(BaseException): pass
class MiniZk:
    def __init__(self):
        self.nodes={'/':(b'',Stat(0,0,0,None,0))}
        self.seq=collections.Counter(); self.now=[1000.0]; self.writes=0; self.cut=None; self.session=1
        self.handler=None
    def _w(self):
        if self.cut is not None and self.writes>=self.cut: raise Cut()
        self.writes+=1
    def make_default_acl(self,acl): return acl
    def make_servers_acl(self): return 'servers'
    def get_children(self,path,watch=None):
        if path not in self.nodes: raise ke.NoNodeError()
        p=path.rstrip('/')+'/'
        return sorted({k[len(p):].split('/')[0] for k in self.nodes if k.startswith(p) and k!=path})
    def exists(self,path,watch=None): return self.nodes[path][1] if path in self.nodes else None
    def get(self,path,watch=None):
        if path not in self.nodes: raise ke.NoNodeError()
        return self.nodes[path]
    def create(self,path,value=b'',acl=None,ephemeral=False,sequence=False,makepath=False):
        if sequence:
            parent=path.rsplit('/',1)[0]
            path='%s%010d'%(path,self.seq[parent]); self.seq[parent]+=1
        if path in self.nodes: raise ke.NodeExistsError()
        parent=path.rsplit('/',1)[0] or '/'
        if parent not in self.nodes:
            if not makepath: raise ke.NoNodeError()
            self.create(parent,b'',makepath=True)
        self._w()
        t=self.now[0]
        self.nodes[path]=(value,Stat(t*1000,t*1000,t,self.session if ephemeral else None,0)); return path
    def set(self,path,value):
        if path not in self.nodes: raise ke.NoNodeError()
        self._w(); s=self.nodes[path][1]; t=self.now[0]
        self.nodes[path]=(value,Stat(s.ctime,t*1000,t,s.owner_session_id,s.version+1))
    def set_acls(self,path,acl): pass
    def delete(self,path,recursive=False):
        if path not in self.nodes: raise ke.NoNodeError()
        if self.get_children(path): raise ke.NotEmptyError()
        self._w(); del self.nodes[path]
