import time
from treadmill import scheduler
from treadmill.scheduler import master
from membackend import MemBackend
scheduler.DIMENSION_COUNT=3
def setup():
    be=MemBackend()
    m=master.Master(be,'cell')
    m.create_rootns()
    be.put('/buckets/pod:1',{'parent':None}); be.put('/buckets/rack:1',{'parent':'pod:1'})
    be.put('/cell/pod:1',None)
    for s in ('s1','s2'):
        be.put('/servers/'+s,{'parent':'rack:1','memory':'10G','cpu':'1000%','disk':'10G','up_since':be.clock[0]})
        be.put('/server.presence/'+s,{})
    return be,m
def pl(be): return sorted(k for k in be.nodes if k.startswith('/placement/') and k.count('/')==3)
be,m=setup()
be.put('/scheduled/foo.bar#0000000001',{'memory':'8G','cpu':'10%','disk':'1G','affinity':'foo.bar'})
be.put('/scheduled/foo.baz#0000000002',{'memory':'8G','cpu':'10%','disk':'1G','affinity':'foo.baz'})
m.load_model(); m.init_schedule()
print({a.name:a.server for a in m.cell.apps.values()}, pl(be))
# server s1 deleted by admin
be.delete('/servers/s1')
be.put('/events/000-servers-0000000001',['s1'])
m.process_events(['000-servers-0000000001'])
m.reschedule(); m.check_placement_integrity()
print({a.name:a.server for a in m.cell.apps.values()}, pl(be))
