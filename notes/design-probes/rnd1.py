"""Quick random-history monitor over the real scheduler (probe only)."""
import random, sys, time as _time, collections
import mock
from treadmill import scheduler
scheduler.DIMENSION_COUNT=3
import numpy as np

class Clock:
    def __init__(self): self.t=1.6e9
    def __call__(self): return self.t
CLK=Clock()

def build(rng):
    cell=scheduler.Cell('top')
    servers={}
    racks=[]
    npods=rng.randint(1,2)
    for p in range(npods):
        pod=scheduler.Bucket('pod:%d'%p,level='pod'); cell.add_node(pod)
        for r in range(rng.randint(1,2)):
            rack=scheduler.Bucket('rack:%d%d'%(p,r),level='rack'); pod.add_node(rack); racks.append(rack)
    labels=[None] if rng.random()<0.6 else [None,'p2']
    n=rng.randint(2,5)
    for i in range(n):
        cap=[rng.choice([4,8,10]) for _ in range(3)]
        s=scheduler.Server('s%d'%i,cap,valid_until=CLK.t+rng.choice([50,500,1e6]),label=rng.choice(labels),traits=rng.choice([0,0,2,6]))
        rng.choice(racks).add_node(s); servers[s.name]=s
    return cell,servers,racks,labels

def check_c01(cell,tag):
    errs=[]
    servers=cell.members()
    seen={}
    for sn,s in servers.items():
        tot=np.zeros(3)
        for an,a in s.apps.items():
            tot+=a.demand
            if a.server!=sn: errs.append(('C01 app.server mismatch',an,a.server,sn))
            if an in seen: errs.append(('C01 double',an,seen[an],sn))
            seen[an]=sn
        if any(s.init_capacity-tot!=s.free_capacity): errs.append(('C01 free',sn,list(s.free_capacity),list(s.init_capacity-tot)))
        if any(s.free_capacity<0): errs.append(('C01 oversub',sn,list(s.free_capacity)))
    for an,a in cell.apps.items():
        if a.server and (a.server not in servers or an not in servers[a.server].apps):
            errs.append(('C01 dangling',an,a.server))
    return errs

def check_c04(cell):
    errs=[]
    def walk(node):
        cnt=collections.Counter()
        if isinstance(node,scheduler.Server):
            for a in node.apps.values(): cnt[a.affinity.name]+=1
        else:
            for ch in node.children_iter(): cnt+=walk(ch)
        for k in set(cnt)|set(k for k,v in node.affinity_counters.items() if v):
            if cnt[k]!=node.affinity_counters[k]: errs.append(('C04 counter',node.name,k,cnt[k],node.affinity_counters[k]))
        return cnt
    walk(cell)
    # limits
    def apps_under(node):
        if isinstance(node,scheduler.Server): return list(node.apps.values())
        r=[]
        for ch in node.children_iter(): r+=apps_under(ch)
        return r
    def walk2(node):
        apps=apps_under(node)
        byaff=collections.defaultdict(list)
        for a in apps: byaff[a.affinity.name].append(a)
        for k,l in byaff.items():
            for a in l:
                if len(l)>a.affinity.limits[node.level]:
                    errs.append(('C04 limit',node.name,node.level,k,len(l),a.affinity.limits[node.level])); break
        if not isinstance(node,scheduler.Server):
            for ch in node.children_iter(): walk2(ch)
    walk2(cell)
    return errs

def check_c05(cell):
    errs=[]
    for gname,g in cell.identity_groups.items():
        held=collections.defaultdict(list)
        for a in cell.apps.values():
            if a.identity_group_ref is g and a.identity is not None:
                held[a.identity].append(a.name)
                if a.identity>=g.count: errs.append(('C05 range',a.name,a.identity,g.count))
                if not a.server: errs.append(('C05 unplaced holds',a.name,a.identity))
                if a.identity in g.available: errs.append(('C05 held&avail',a.name,a.identity))
        for k,l in held.items():
            if len(l)>1: errs.append(('C05 dup',gname,k,l))
        for a in cell.apps.values():
            if a.identity_group_ref is g and a.server and a.identity is None: errs.append(('C05 placed w/o id',a.name))
    return errs

def run(seed,steps=40):
    rng=random.Random(seed)
    cell,servers,racks,labels=build(rng)
    allocs={}
    for lab in labels:
        root=cell.partitions[lab].allocation
        a1=root.get_sub_alloc('t1'); a1.update([rng.choice([0,4,8])]*3, rng.choice([100,100,50]), rng.choice([0,0,10]), rng.choice([None,None,2.0]))
        a2=root.get_sub_alloc('t2'); a2.update([rng.choice([0,4])]*3,100,0)
        allocs[lab]=[root,a1,a2]
    cell.configure_identity_group('g',rng.randint(0,3))
    n=[0]
    hist=[]
    allerrs=[]
    def newapp():
        n[0]+=1; CLK.t+=0.001
        name='p.a%d#%010d'%(rng.randint(0,2),n[0])
        lim=None
        if rng.random()<0.3: lim={rng.choice(['server','rack','pod','cell']):rng.randint(1,2)}
        app=scheduler.Application(name,rng.choice([0,1,1,5,10,50]),[rng.choice([1,2,3,5,8]) for _ in range(3)],name.split('#')[0],
            affinity_limits=lim,data_retention_timeout=rng.choice([0,30,None]),lease=rng.choice([0,0,0,100]),
            identity_group=rng.choice([None,None,'g']),traits=rng.choice([0,0,0,2,4]),schedule_once=rng.random()<0.15)
        lab=rng.choice(labels)
        cell.add_app(rng.choice(allocs[lab]),app)
        return ('add',name)
    for step in range(steps):
        r=rng.random()
        if r<0.35: hist.append(newapp())
        elif r<0.45 and cell.apps:
            nm=rng.choice(sorted(cell.apps)); cell.remove_app(nm); hist.append(('rm',nm))
        elif r<0.55:
            s=rng.choice(sorted(servers)); st=rng.choice([scheduler.State.up,scheduler.State.down,scheduler.State.frozen]); servers[s].state=st; hist.append(('state',s,st.value))
        elif r<0.60: CLK.t+=rng.choice([1,20,40,200]); hist.append(('tick',CLK.t))
        elif r<0.65 and cell.apps:
            nm=rng.choice(sorted(cell.apps)); cell.apps[nm].priority=rng.choice([0,1,50,100]); hist.append(('prio',nm))
        elif r<0.70 and cell.apps:
            nm=rng.choice(sorted(cell.apps)); cell.apps[nm].blacklisted=not cell.apps[nm].blacklisted; hist.append(('bl',nm))
        elif r<0.75:
            c=rng.randint(0,3); cell.configure_identity_group('g',c); hist.append(('idg',c))
        elif r<0.78 and cell.apps:
            nm=rng.choice(sorted(cell.apps))
            if cell.apps[nm].server: cell.apps[nm].renew=True; hist.append(('renew',nm))
        else:
            CLK.t+=2
            before={a.name:(a.server) for a in cell.apps.values()}
            try:
                pl=cell.schedule()
            except Exception as e:
                allerrs.append(('EXC',repr(e))); hist.append(('sched','EXC')); break
            hist.append(('sched',))
            errs=check_c01(cell,'')+check_c04(cell)+check_c05(cell)
            if errs: allerrs+= [(step,)+e for e in errs]; break
    return allerrs,hist

if __name__=='__main__':
    stats=collections.Counter()
    ex={}
    with mock.patch('time.time',CLK):
        for seed in range(int(sys.argv[1]),int(sys.argv[2])):
            errs,hist=run(seed)
            for e in errs:
                k=e[1] if isinstance(e[1],str) else e[0]
                stats[k]+=1
                ex.setdefault(k,(seed,e))
    print(stats)
    for k,v in ex.items(): print(k,v)
