import time, mock
from treadmill import scheduler
from treadmill.scheduler import master
from treadmill import zknamespace as z
from membackend import MemBackend
scheduler.DIMENSION_COUNT=3
be=MemBackend()
m=master.Master(be,'cell')
m.create_rootns()
be.put('/buckets/pod:1',{'parent':None,'traits':0}); be.put('/buckets/rack:1',{'parent':'pod:1'})
be.put('/cell/pod:1',None)
be.put('/partitions/p1',{}); be.put('/partitions/p2',{})
for s,p in (('s1','p1'),('s2','p2')):
    be.put('/servers/'+s,{'parent':'rack:1','memory':'10G','cpu':'1000%','disk':'10G','partition':p,'up_since':be.clock[0]})
    be.put('/server.presence/'+s,{})
be.put('/allocations',[{'name':'t/a','partition':'p1','rank':100,'memory':'1G','cpu':'100%','disk':'1G','assignments':[{'pattern':'foo.*','priority':1}]}])
be.put('/scheduled/foo.bar#0000000001',{'memory':'1G','cpu':'10%','disk':'1G','affinity':'foo.bar'})
m.load_model(); m.init_schedule()
app=m.cell.apps['foo.bar#0000000001']
print('placed', app.server, app.allocation.label, sorted(k for k in be.nodes if k.startswith('/placement/')))
# move allocation to p2
be.put('/allocations',[{'name':'t/a','partition':'p2','rank':100,'memory':'1G','cpu':'100%','disk':'1G','assignments':[{'pattern':'foo.*','priority':1}]}])
m._handle_allocations_event('x')
m.reschedule(); m.check_placement_integrity()
print('after move', app.server, app.allocation.label, m.servers[app.server].labels if app.server else None)
