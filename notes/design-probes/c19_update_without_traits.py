"""C19 probe: an update that omits 'traits' keeps the stored traits but is checked without them.

REPAIRED in /repo by b7ba238 (update checks the merged reservation): on the repaired tree the update
below raises InvalidInputError and this script prints NOT REPRODUCED; on a tree with that commit
reverted it prints DEFECT REPRODUCED.

Run: PYTHONPATH=/repo/lib/python /venv/bin/python c19_update_without_traits.py
Real `treadmill.api.allocation.API().reservation.create/update` over a dict-backed fake admin.
Partition p1 of cell c1: cpu 100%, limit for trait 'a': cpu 20%.
  create t/r1/c1 {cpu 10%, traits [a]}   accepted (10 <= 20)
  update t/r1/c1 {cpu 90%}  (no 'traits') accepted: only the overall capacity is checked,
but the stored reservation is the old one merged with the request, i.e. still carries 'a':
reservations with trait 'a' now use 90% > limit 20%.
"""
import decorator
import mock

if not hasattr(decorator, "getargspec"):      # decorator >= 5 dropped it; schema.py still calls it
    decorator.getargspec = decorator.getfullargspec
from treadmill import context
from treadmill.admin import exc as admin_exc
from treadmill.api import allocation

STORE = {}
PARTS = {('p1', 'c1'): {'cpu': '100%', 'memory': '100G', 'disk': '100G',
                        'limits': [{'trait': 'a', 'cpu': '20%', 'memory': '100G', 'disk': '100G'}]}}


class CellAlloc:
    def list(self, attrs):
        return [dict(v, _id='%s/%s' % (k[1], k[0])) for k, v in STORE.items()
                if v['cell'] == attrs['cell'] and v['partition'] == attrs['partition']]

    def get(self, ident, dirty=False):
        if tuple(ident) not in STORE:
            raise admin_exc.NoSuchObjectResult(ident)
        return dict(STORE[tuple(ident)])

    def create(self, ident, attrs):
        STORE[tuple(ident)] = dict({'traits': []}, cell=ident[0], **attrs)

    def update(self, ident, attrs):
        STORE[tuple(ident)] = dict(attrs)


class Part:
    def get(self, ident):
        if tuple(ident) not in PARTS:
            raise admin_exc.NoSuchObjectResult(ident)
        return PARTS[tuple(ident)]


admin = mock.Mock()
admin.cell_allocation.return_value = CellAlloc()
admin.partition.return_value = Part()
context.GLOBAL.admin = admin
api = allocation.API().reservation
api.create('t/r1/c1', {'cpu': '10%', 'memory': '1G', 'disk': '1G', 'partition': 'p1', 'traits': ['a']})
try:
    api.update('t/r1/c1', {'cpu': '90%', 'memory': '1G', 'disk': '1G', 'partition': 'p1'})
except Exception as exc:        # pylint: disable=broad-except
    print('update rejected: %r' % exc)
print(STORE)
used = sum(int(v['cpu'][:-1]) for v in STORE.values() if 'a' in v['traits'])
print("trait 'a' cpu used %d%% of limit 20%%" % used)
print('DEFECT REPRODUCED' if used > 20 else 'NOT REPRODUCED (repaired)')
