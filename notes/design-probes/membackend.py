import collections, time, threading
from treadmill.scheduler import backend
Meta=collections.namedtuple('Meta','ctime mtime')
class MemBackend(backend.Backend):
    def __init__(self):
        self.nodes={'/':(None,Meta(0,0))}
        self.clock=[1000.0]
        self.log=[]
    def _kids(self,path):
        p=path.rstrip('/')+'/'
        return sorted({k[len(p):].split('/')[0] for k in self.nodes if k.startswith(p) and k!=path})
    def list(self,path):
        if path not in self.nodes: raise backend.ObjectNotFoundError()
        return self._kids(path)
    def get(self,path):
        if path not in self.nodes: raise backend.ObjectNotFoundError()
        return self.nodes[path][0]
    def get_with_metadata(self,path):
        if path not in self.nodes: raise backend.ObjectNotFoundError()
        return self.nodes[path]
    def _mk(self,path):
        parts=path.strip('/').split('/')
        cur=''
        for p in parts[:-1]:
            cur+='/'+p
            if cur not in self.nodes: self.nodes[cur]=(None,Meta(self.clock[0]*1000,self.clock[0]*1000))
    def put(self,path,value):
        self.log.append(('put',path,value))
        self._mk(path)
        if path in self.nodes:
            self.nodes[path]=(value,Meta(self.nodes[path][1].ctime,self.clock[0]*1000))
        else:
            self.nodes[path]=(value,Meta(self.clock[0]*1000,self.clock[0]*1000))
    def exists(self,path): return path in self.nodes
    def ensure_exists(self,path):
        if path not in self.nodes: self.put(path,None)
    def delete(self,path):
        self.log.append(('del',path))
        for k in [k for k in self.nodes if k==path or k.startswith(path+'/')]:
            del self.nodes[k]
    def update(self,path,data,check_content=False):
        if path not in self.nodes: raise backend.ObjectNotFoundError()
        self.put(path,data)
    def event_object(self): return threading.Event()
