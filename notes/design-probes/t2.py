import time
from treadmill import scheduler
scheduler.DIMENSION_COUNT=3
T=time.time()+1e6
def cell2():
    cell=scheduler.Cell('top')
    rack=scheduler.Bucket('rack:1',level='rack'); cell.add_node(rack)
    s1=scheduler.Server('s1',[10,10,10],valid_until=T,label=None)
    s2=scheduler.Server('s2',[10,10,10],valid_until=T,label=None)
    rack.add_node(s1); rack.add_node(s2)
    return cell,rack,s1,s2
# C04: eviction ignores rack limit
cell,rack,s1,s2=cell2()
alloc=cell.partitions[None].allocation
lo1=scheduler.Application('p.lo#1',1,[10,10,10],'p.lo')
lo2=scheduler.Application('p.lo#2',1,[10,10,10],'p.lo')
cell.add_app(alloc,lo1); cell.add_app(alloc,lo2)
cell.schedule()
print('lo', lo1.server, lo2.server)
hi1=scheduler.Application('p.hi#1',50,[10,10,10],'p.hi',affinity_limits={'rack':1})
hi2=scheduler.Application('p.hi#2',50,[10,10,10],'p.hi',affinity_limits={'rack':1})
cell.add_app(alloc,hi1); cell.add_app(alloc,hi2)
cell.schedule()
print('hi', hi1.server, hi2.server, 'rack counter', rack.affinity_counters['p.hi'])

# C05: identity leak on infeasible skip
cell,rack,s1,s2=cell2()
alloc=cell.partitions[None].allocation
cell.configure_identity_group('g',1)
big=scheduler.Application('p.big#1',50,[20,20,20],'p.x')
cell.add_app(alloc,big)
idapp=scheduler.Application('p.id#1',10,[20,20,20],'p.x',identity_group='g')
cell.add_app(alloc,idapp)
ok=scheduler.Application('p.ok#1',5,[1,1,1],'p.y',identity_group='g')
cell.add_app(alloc,ok)
cell.schedule()
print('C05 infeasible: idapp', idapp.server, idapp.identity, 'ok', ok.server, ok.identity, cell.identity_groups['g'].available)
