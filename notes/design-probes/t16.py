"""C16 probe: _unshare_network then _cleanup_network on real rules/endpoints dirs + ipset fake."""
import random, sys, os, tempfile, shutil, collections, mock
from treadmill import utils, rulefile, endpoints as ep, appcfg
from treadmill.runtime.linux import _run, _finish
def run(seed):
    rng=random.Random(seed); errs=[]
    root=tempfile.mkdtemp()
    try:
        os.makedirs(os.path.join(root,'rules')); os.makedirs(os.path.join(root,'apps'))
        tm_env=mock.Mock()
        tm_env.apps_dir=os.path.join(root,'apps')
        tm_env.rules=rulefile.RuleMgr(os.path.join(root,'rules'),tm_env.apps_dir)
        tm_env.endpoints=ep.EndpointsMgr(os.path.join(root,'endpoints'))
        ipsets=collections.defaultdict(set)
        def add(s,e): ipsets[s].add(e)
        def rm(s,e): ipsets[s].discard(e)
        def snap(): return (sorted(os.listdir(os.path.join(root,'rules'))),sorted(os.listdir(os.path.join(root,'endpoints'))),{k:sorted(v) for k,v in ipsets.items() if v})
        apps=[]
        n=rng.randint(1,3)
        ports=iter(rng.sample(range(5000,5100),60))
        for i in range(n):
            name='foo.a%d#%010d'%(i,i+1); uid='u%012d'%i
            eps=[{'name':'e%d'%k,'port':rng.choice([0,80,8000+k]),'real_port':next(ports),'proto':rng.choice(['tcp','udp']),'type':rng.choice([None,'infra'])} for k in range(rng.randint(0,4))]
            for e in eps:
                if e['port']==0: e['port']=e['real_port']
                if e['type'] is None: del e['type']
            man={'name':name,'uniqueid':uid,'endpoints':eps,'ephemeral_ports':{'tcp':[next(ports) for _ in range(rng.randint(0,3))],'udp':[next(ports) for _ in range(rng.randint(0,2))]},
                 'vring':rng.choice([None,{'cells':['c']}]) ,'shared_ip':rng.random()<0.3,'shared_network':False,
                 'network':{'vip':'192.168.0.%d'%(i+2),'external_ip':'10.1.1.1','veth':'v','gateway':'192.168.254.254'}}
            if rng.random()<0.5: man['passthrough']=['h%d'%k for k in range(rng.randint(0,3))]
            apps.append((man,utils.to_obj(man)))
        with mock.patch('treadmill.iptables.add_ip_set',add), mock.patch('treadmill.iptables.rm_ip_set',rm), \
             mock.patch('treadmill.iptables.flush_cnt_conntrack_table',mock.Mock()), mock.patch('treadmill.newnet.create_newnet',mock.Mock()), \
             mock.patch('treadmill.plugin_manager.load',mock.Mock()), mock.patch('socket.gethostbyname',lambda h:'172.16.0.%d'%(int(h[1:])+1)):
            base=snap()
            order=[]
            started=set(); state={}
            events=[('start',i) for i in range(n)]+[('finish',i) for i in range(n)]+[('finish',i) for i in range(n) if rng.random()<0.5]
            # random interleaving respecting start before finish
            pend=list(range(n)); run_=[]; seq=[]
            while pend or run_:
                if pend and (not run_ or rng.random()<0.5): i=pend.pop(rng.randrange(len(pend))); seq.append(('start',i)); run_.append(i)
                else: i=run_.pop(rng.randrange(len(run_))); seq.append(('finish',i)); 
                if rng.random()<0.3 and seq[-1][0]=='finish': seq.append(seq[-1])
            netstate={}
            for op,i in seq:
                man,app=apps[i]
                uniq=appcfg.app_unique_name(app)
                if op=='start':
                    before_i=snap()
                    _run._unshare_network(tm_env,os.path.join(tm_env.apps_dir,uniq),app)
                    netstate[uniq]={'vip':man['network']['vip'],'external_ip':man['network']['external_ip']}
                    started.add(i)
                else:
                    client=mock.Mock(); client.get.side_effect=lambda u: netstate.get(u)
                    client.delete.side_effect=lambda u: netstate.pop(u,None)
                    _finish._cleanup_network(tm_env,os.path.join(tm_env.apps_dir,uniq),app,client)
                    started.discard(i)
                # entries of still-running containers must remain
                rules_now=os.listdir(os.path.join(root,'rules'))
                for j in started:
                    u=appcfg.app_unique_name(apps[j][1])
                    owned=[f for f in rules_now if os.path.basename(os.readlink(os.path.join(root,'rules',f)))==u]
                    exp=2*len(apps[j][0]['endpoints'])+len(apps[j][0]['ephemeral_ports']['tcp'])+len(apps[j][0]['ephemeral_ports']['udp'])+len(set(apps[j][0].get('passthrough',[])))
                    if len(owned)!=exp: errs.append(('foreign removed or missing',j,len(owned),exp))
            if snap()!=base: errs.append(('leak',snap(),base))
    finally:
        shutil.rmtree(root)
    return errs
stats=collections.Counter(); ex={}
for seed in range(int(sys.argv[1]),int(sys.argv[2])):
    for e in run(seed): stats[e[0]]+=1; ex.setdefault(e[0],(seed,e))
print(stats)
for k,v in ex.items(): print(k,str(v)[:600])
