from treadmill.trace.app import events
e=events.ScheduledTraceEvent(where='s1',why=None,timestamp=1.0,source='m',instanceid='a.b#1')
d=e.to_data(); print(d)
e2=events.AppTraceEvent.from_data(timestamp=d[0],source=d[1],instanceid=d[2],event_type=d[3],event_data=d[4])
print(repr(e2.why), e2.to_data()==d, e2.to_dict()==e.to_dict())
# C19
import mock
from treadmill.api import allocation as A
from treadmill import exc
part={'cpu':'1000%','memory':'100G','disk':'100G','limits':[{'trait':'gpu','cpu':'100%','memory':'10G','disk':'10G'}]}
allocs=[{'_id':'t/a/cell','cpu':'10%','memory':'1G','disk':'1G','traits':['gpu']}]
with mock.patch.object(A,'_admin_cell_alloc') as ca, mock.patch.object(A,'_partition_get',return_value=part):
    ca.return_value.list.return_value=allocs
    try:
        A._check_capacity('cell','t/b',{'partition':'p','cpu':'10%','memory':'1G','disk':'1G','traits':['gpu']})
        print('accepted')
    except Exception as e:
        print('raised',type(e).__name__,e)
