"""C06 reproducer: an instance whose cumulative demand is within its allocation's reservation in
every dimension is NOT boosted when one dimension of the demand in front of it already equals the
reservation (here: reservation 0 in `disk`, demand 0 in `disk`).

    PYTHONPATH=/repo/lib/python /venv/bin/python notes/design-probes/c06_boost_zero_dimension.py
"""
from treadmill import scheduler

scheduler.DIMENSION_COUNT = 3
alloc = scheduler.Allocation()
alloc.update([10, 10, 0], 100, 10)            # reserved, rank, rank_adjustment
app = scheduler.Application('foo.a#0000000001', 1, [5, 5, 0], 'foo.a')
alloc.add(app)
(rank, util_before, util_after, _pending, _order, _app), = list(alloc.priv_utilization_queue())
print('rank', rank, 'util_before', util_before, 'util_after', util_after)
assert rank == 100 and util_before == 0.0, 'boosted after all?'
print('NOT boosted: cumulative demand [5, 5, 0] <= reservation [10, 10, 0], expected rank 90')
