"""C12 probe: EventMgr._synchronize from arbitrary cache states; write_safe fault points."""
import random, sys, os, tempfile, shutil, collections, mock, json, glob
from treadmill import eventmgr, fs, zknamespace as z
from treadmill import yamlwrapper as yaml
import minizk
class Boom(Exception): pass
def run(seed):
    rng=random.Random(seed); errs=[]
    root=tempfile.mkdtemp()
    try:
        with mock.patch('treadmill.sysinfo.hostname',return_value='host1'):
            em=eventmgr.EventMgr(root)
        cache=em.tm_env.cache_dir; os.makedirs(cache,exist_ok=True)
        zkc=minizk.MiniZk()
        for p in (z.SCHEDULED,z.path.placement('host1')): zkc.create(p,b'',makepath=True)
        insts=['p.a#%010d'%i for i in range(6)]
        expected=[i for i in insts if rng.random()<0.5]
        has_manifest={}; has_pl={}
        zkc.now[0]=2000.0
        for i in expected:
            has_manifest[i]=rng.random()<0.85; has_pl[i]=rng.random()<0.85
            if has_manifest[i]: zkc.create(z.path.scheduled(i),json.dumps({'memory':'1G','name':i}).encode())
            if has_pl[i]: zkc.create(z.path.placement('host1',i),json.dumps({'identity':rng.choice([None,1]),'expires':123}).encode())
        # prior cache
        prior={}
        for i in insts:
            if rng.random()<0.4:
                with open(os.path.join(cache,i),'w') as f: f.write('stale: true\n')
                prior[i]=True
        open(os.path.join(cache,'.ready'),'w').close()
        open(os.path.join(cache,'.p.a#tmpjunk'),'w').close()
        fault=rng.choice([None,None,'dump','replace','fchmod'])
        fault_at=rng.randint(0,3); cnt=[0]
        def maybe(name,orig):
            def f(*a,**k):
                if fault==name:
                    cnt[0]+=1
                    if cnt[0]-1==fault_at: raise Boom(name)
                return orig(*a,**k)
            return f
        raised=False
        with mock.patch('treadmill.yamlwrapper.dump',maybe('dump',yaml.dump)), mock.patch('os.replace',maybe('replace',os.replace)), mock.patch('os.fchmod',maybe('fchmod',os.fchmod)):
            try: em._synchronize(zkc,expected,check_existing=rng.random()<0.5)
            except Boom: raised=True
        vis={os.path.basename(p) for p in glob.glob(os.path.join(cache,'*'))}
        for f in vis:
            if f not in expected: 
                if not raised: errs.append(('extra remains',f))
        for i in expected:
            if has_manifest[i] and has_pl[i] and i not in vis and not raised: errs.append(('missing',i))
        for f in vis:
            content=open(os.path.join(cache,f)).read()
            try: d=yaml.load(content)
            except Exception: errs.append(('unparsable',f,content)); continue
            if d=={'stale':True}: continue
            if not (isinstance(d,dict) and d.get('task')==f.split('#')[1] and d.get('name')==f and 'expires' in d and 'identity' in d):
                errs.append(('partial/incorrect',f,d,fault,fault_at))
        junk=[f for f in os.listdir(cache) if f.startswith('.') and f not in ('.ready','.p.a#tmpjunk')]
        if junk and True: errs.append(('temp left',junk,fault))
    finally:
        shutil.rmtree(root)
    return errs
stats=collections.Counter(); ex={}
for seed in range(int(sys.argv[1]),int(sys.argv[2])):
    for e in run(seed): stats[e[0]]+=1; ex.setdefault(e[0],(seed,e))
print(stats)
for k,v in ex.items(): print(k,v)
