"""C17 finding: identity node shared by two instances on one host is deleted by the clean-up of the
first instance's container although the second instance's container registered it afterwards.

Run: PYTHONPATH=/repo/lib/python:/verif/harness /venv/bin/python /verif/notes/design-probes/c17_shared_identity.py
(real PresenceResourceService on the in-memory ZooKeeper fake of the presence engine)."""
import mock
import fakezk_presence as fz
from treadmill.services import presence_service as ps

server = fz.Server()
client = fz.Client(server)


class Svc(ps.PresenceResourceService):
    __slots__ = ()
    zkclient = property(lambda self: client)

    def retry_request(self, rsrc_id):
        print('retry', rsrc_id)


with mock.patch('treadmill.sysinfo.hostname', return_value='host1'):
    svc = Svc()
req = {'endpoints': [], 'identity_group': 'g', 'identity': 0}
print('create A (instance 1):', svc.on_create_request('foo.bar-0000000001-aaaaaaaaaaaaa', dict(req)))
print('create B (instance 2):', svc.on_create_request('foo.bar-0000000002-bbbbbbbbbbbbb', dict(req)))
print('identity node now:', server.nodes['/identity-groups/g/0'].data)
print('delete A:', svc.on_delete_request('foo.bar-0000000001-aaaaaaaaaaaaa'))
print('identity node after A\'s clean-up:', server.nodes.get('/identity-groups/g/0'))
print('B still believes it is registered:', dict(svc.presence['foo.bar#0000000002']))
assert '/identity-groups/g/0' not in server.nodes
