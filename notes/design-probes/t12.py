"""C14 probe: random op sequences on VipMgr / RuleMgr / EndpointsMgr on a temp dir."""
import random, sys, os, tempfile, shutil, collections, ipaddress
from treadmill import vipfile, rulefile, endpoints, firewall

def run(seed):
    rng=random.Random(seed)
    root=tempfile.mkdtemp()
    errs=[]
    try:
        owners_dir=os.path.join(root,'owners'); os.makedirs(owners_dir)
        vips=vipfile.VipMgr('10.0.0.0/29',os.path.join(root,'vips'),owners_dir)
        os.makedirs(os.path.join(root,'rules'))
        rules=rulefile.RuleMgr(os.path.join(root,'rules'),owners_dir)
        eps=endpoints.EndpointsMgr(os.path.join(root,'eps'))
        live=set(); held=collections.defaultdict(set)   # owner -> {('vip',ip)|('rule',fn)|('ep',fn)}
        names=['foo.a-0000000001-aaaaaaaaaaaaa','foo.a-0000000002-bbbbbbbbbbbbb','foo.b-0000000003-ccccccccccccc','foo.a-0000000001-ddddddddddddd']
        def mkrule():
            return firewall.DNATRule(proto=rng.choice(['tcp','udp']),new_ip='10.0.0.%d'%rng.randint(1,3),new_port=rng.choice([80,8080]),dst_ip='1.2.3.4',dst_port=rng.choice([5000,5001]))
        def truth():
            t={}
            for ip in os.listdir(os.path.join(root,'vips')): t[('vip',ip)]=os.path.basename(os.readlink(os.path.join(root,'vips',ip)))
            for fn in os.listdir(os.path.join(root,'rules')): t[('rule',fn)]=os.path.basename(os.readlink(os.path.join(root,'rules',fn)))
            for fn in os.listdir(os.path.join(root,'eps')): t[('ep',fn)]=os.path.basename(os.readlink(os.path.join(root,'eps',fn)))
            return t
        for step in range(rng.randint(10,50)):
            o=rng.choice(names); r=rng.random()
            before=truth()
            if r<0.15:
                if o in live: live.discard(o); os.unlink(os.path.join(owners_dir,o)); held.pop(o,None)  # owner disappears (beliefs die with it)
                else: live.add(o); open(os.path.join(owners_dir,o),'w').close()
            elif r<0.35 and o in live:
                try:
                    ip=vips.alloc(o); held[o].add(('vip',ip))
                    if ipaddress.ip_address(ip) not in ipaddress.ip_network('10.0.0.0/29'): errs.append(('cidr',ip))
                except Exception as e: pass
            elif r<0.45:
                ip='10.0.0.%d'%rng.randint(1,6); vips.free(o,ip)
                if before.get(('vip',ip)) not in (None,o) and truth().get(('vip',ip))!=before.get(('vip',ip)): errs.append(('vip freed by non-owner',o,ip))
                if before.get(('vip',ip))==o: held[o].discard(('vip',ip))
            elif r<0.6 and o in live:
                rule=mkrule(); fn=rules._filenameify('ch_ain',rule)
                try: rules.create_rule('ch_ain',rule,o); held[o].add(('rule',fn))
                except OSError: pass
            elif r<0.7:
                rule=mkrule(); fn=rules._filenameify('ch_ain',rule)
                rules.unlink_rule('ch_ain',rule,o)
                if before.get(('rule',fn)) not in (None,o) and ('rule',fn) not in truth(): errs.append(('rule freed by non-owner',o,fn))
                if before.get(('rule',fn))==o: held[o].discard(('rule',fn))
            elif r<0.8 and o in live:
                inst=o.rsplit('-',1)[0]; inst='#'.join(inst.rsplit('-',1))
                args=dict(appname=inst,proto='tcp',endpoint=rng.choice(['http','ssh']),real_port=rng.choice([5000,5001]),pid=1,port=80)
                fn=endpoints._namify(**args)
                try: eps.create_spec(owner=os.path.join(root,'apps',o),**args); held[o].add(('ep',fn))
                except OSError: pass
            elif r<0.88:
                inst=o.rsplit('-',1)[0]; inst='#'.join(inst.rsplit('-',1))
                eps.unlink_all(inst,owner=o)
                for k,v in before.items():
                    if k[0]=='ep' and v!=o and k not in truth(): errs.append(('ep freed by non-owner',o,k))
                held[o]={k for k in held[o] if k[0]!='ep'}
            else:
                vips.garbage_collect(); rules.garbage_collect()
                after=truth()
                for k,v in before.items():
                    if k[0] in ('vip','rule'):
                        if v in live and k not in after: errs.append(('gc removed live',k,v))
                        if v not in live and k in after: errs.append(('gc kept dead',k,v))
            t=truth()
            for ow in live:
                for k in held[ow]:
                    if t.get(k)!=ow: errs.append(('belief mismatch',ow,k,t.get(k)))
            inv=collections.defaultdict(list)
            for ow in live:
                for k in held[ow]: inv[k].append(ow)
            for k,l in inv.items():
                if len(l)>1: errs.append(('two live owners',k,l))
            if errs: break
    finally:
        shutil.rmtree(root)
    return errs
stats=collections.Counter(); ex={}
for seed in range(int(sys.argv[1]),int(sys.argv[2])):
    for e in run(seed): stats[e[0]]+=1; ex.setdefault(e[0],(seed,e))
print(stats)
for k,v in ex.items(): print(k,v)
