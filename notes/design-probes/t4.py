import os, tempfile, mock, shutil, time
from treadmill import appcfgmgr, appcfg, fs, supervisor
root=tempfile.mkdtemp(dir='/tmp/x')
with mock.patch('treadmill.appenv.AppEnvironment.__init__', autospec=True) as _i:
    pass
from treadmill import appenv
def fake_configure(tm_env, event, runtime, runtime_param=None):
    if not os.path.exists(event): return None
    uniq=appcfg.eventfile_unique_name(event)
    d=os.path.join(tm_env.apps_dir,uniq)
    os.makedirs(os.path.join(d,'data'),exist_ok=True)
    shutil.copyfile(event, os.path.join(d,'data','manifest.yml'))
    return d
with mock.patch('treadmill.appcfg.configure.configure', fake_configure), \
     mock.patch('treadmill.supervisor.control_svscan', mock.Mock()):
    mgr=appcfgmgr.AppCfgMgr(root,'linux')
    env=mgr.tm_env
    for d in (env.cache_dir, env.apps_dir, env.running_dir, env.cleanup_dir):
        os.makedirs(d,exist_ok=True)
    inst='foo.bar#0000000001'
    def ls():
        return {d:{n:(os.readlink(os.path.join(getattr(env,d+'_dir'),n)) if os.path.islink(os.path.join(getattr(env,d+'_dir'),n)) else '-') for n in os.listdir(getattr(env,d+'_dir'))} for d in ('cache','running','cleanup','apps')}
    open(os.path.join(env.cache_dir,'.ready'),'w').close()
    mgr._on_created(os.path.join(env.cache_dir,'.ready'))
    # gen 1
    open(os.path.join(env.cache_dir,inst),'w').write('a: 1\n')
    mgr._on_created(os.path.join(env.cache_dir,inst))
    # evicted
    os.unlink(os.path.join(env.cache_dir,inst))
    mgr._on_deleted(os.path.join(env.cache_dir,inst))
    time.sleep(0.01)
    # placed again (gen 2)
    open(os.path.join(env.cache_dir,inst),'w').write('a: 2\n')
    mgr._on_created(os.path.join(env.cache_dir,inst))
    print('before resync'); print(ls())
    # manager restart / readiness flip -> resync
    mgr._is_active=False
    mgr._on_created(os.path.join(env.cache_dir,'.ready'))
    print('after resync'); print(ls())
