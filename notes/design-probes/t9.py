import random, sys, mock, collections, copy
from treadmill import scheduler
from treadmill.scheduler import master
from membackend import MemBackend
import t8
scheduler.DIMENSION_COUNT=3
class Crash(BaseException): pass

def doubles(be):
    rec=collections.defaultdict(list)
    for k in be.nodes:
        if k.startswith('/placement/') and k.count('/')==3:
            _,_,srv,app=k.split('/'); rec[app].append(srv)
    return {a:s for a,s in rec.items() if len(s)>1}

def run(seed):
    rng=random.Random(seed)
    be=MemBackend(); clk=be.clock
    errs=[]
    with mock.patch('time.time',lambda: clk[0]):
        m=master.Master(be,'cell'); m.create_rootns()
        be.put('/buckets/pod:1',{'parent':None}); be.put('/buckets/rack:1',{'parent':'pod:1'}); be.put('/cell/pod:1',None)
        ns=rng.randint(2,4)
        for i in range(ns):
            be.put('/servers/s%d'%i,{'parent':'rack:1','memory':'%dG'%rng.choice([4,8]),'cpu':'800%','disk':'8G','up_since':clk[0]})
            be.put('/server.presence/s%d'%i,{})
        be.put('/identity-groups/g',{'count':2})
        clk[0]+=1
        m.load_model(); m.init_schedule()
        n=0
        for step in range(rng.randint(3,15)):
            clk[0]+=3
            for _ in range(rng.randint(1,3)):
                r=rng.random()
                if r<0.5:
                    n+=1; name='foo.a%d#%010d'%(rng.randint(0,1),n)
                    man={'memory':'%dG'%rng.choice([1,2,3,5]),'cpu':'10%','disk':'1G','affinity':name.split('#')[0],'priority':rng.choice([1,10,50])}
                    if rng.random()<0.3: man['identity_group']='g'
                    if rng.random()<0.15: man['schedule_once']=True
                    be.put('/scheduled/'+name,man); m.process_scheduled(be.list('/scheduled'))
                elif r<0.6 and be.list('/scheduled'):
                    name=rng.choice(be.list('/scheduled')); be.delete('/scheduled/'+name); m.process_scheduled(be.list('/scheduled'))
                elif r<0.8:
                    s='s%d'%rng.randrange(ns)
                    if be.exists('/server.presence/'+s): be.delete('/server.presence/'+s)
                    else: be.put('/server.presence/'+s,{})
                    m.process_server_presence(be.list('/server.presence'))
                else: clk[0]+=40
            # enumerate crash points of this cycle on copies
            snap_nodes=copy.deepcopy(be.nodes)
            mcopy=None
            # count writes of full cycle on a deep copy of master? Master not deepcopy-friendly; instead re-run from pickled state is hard.
            # so: do the real cycle but record log; then simulate prefixes by replaying the log on snap.
            l0=len(be.log)
            m.reschedule(); m.check_placement_integrity()
            writes=be.log[l0:]
            for k in range(len(writes)+1):
                be2=MemBackend(); be2.nodes=copy.deepcopy(snap_nodes); be2.clock=[clk[0]]
                for w in writes[:k]:
                    if w[0]=='put': be2.put(w[1],w[2])
                    else: be2.delete(w[1])
                d=doubles(be2)
                if d: errs.append(('C10 double-at-cut',k,d)); break
                be2.clock[0]+=5
                with mock.patch('time.time',lambda: be2.clock[0]):
                    m2=master.Master(be2,'cell')
                    try:
                        m2.load_model(); m2.init_schedule(); m2.check_placement_integrity()
                    except Exception as e:
                        errs.append(('C10 restart-exc',k,repr(e))); break
                    ag=[x for x in t8.agree(be2,m2) if x[0]!='content']
                    if ag: errs.append(('C10 restart-disagree',k,ag[:2])); break
            if errs: break
    return errs

if __name__=='__main__':
    stats=collections.Counter(); ex={}
    for seed in range(int(sys.argv[1]),int(sys.argv[2])):
        for e in run(seed):
            stats[e[0]]+=1; ex.setdefault(e[0],(seed,e))
    print(stats)
    for k,v in ex.items(): print(k,v)
