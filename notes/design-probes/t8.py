import random, sys, mock, collections
from treadmill import scheduler
from treadmill.scheduler import master
from membackend import MemBackend
scheduler.DIMENSION_COUNT=3

def agree(be,m):
    errs=[]
    rec={}
    for k,(v,meta) in be.nodes.items():
        if k.startswith('/placement/') and k.count('/')==3:
            _,_,srv,app=k.split('/')
            rec.setdefault(app,[]).append((srv,v))
    for app,a in m.cell.apps.items():
        r=rec.get(app,[])
        if a.server:
            if len(r)!=1 or r[0][0]!=a.server: errs.append(('existence',app,a.server,[x[0] for x in r]))
            elif r[0][1].get('identity')!=a.identity or r[0][1].get('expires')!=a.placement_expiry:
                errs.append(('content',app,a.server,r[0][1],a.identity,a.placement_expiry))
        elif r: errs.append(('pending-has-record',app,[x[0] for x in r]))
    for app in rec:
        if app not in m.cell.apps: errs.append(('unscheduled-has-record',app,[x[0] for x in rec[app]]))
    return errs

def run(seed):
    rng=random.Random(seed)
    be=MemBackend()
    clk=be.clock
    with mock.patch('time.time',lambda: clk[0]):
        m=master.Master(be,'cell'); m.create_rootns()
        be.put('/buckets/pod:1',{'parent':None}); be.put('/buckets/rack:1',{'parent':'pod:1'}); be.put('/cell/pod:1',None)
        ns=rng.randint(2,4)
        for i in range(ns):
            be.put('/servers/s%d'%i,{'parent':'rack:1','memory':'%dG'%rng.choice([4,8]),'cpu':'800%','disk':'8G','up_since':clk[0]})
            be.put('/server.presence/s%d'%i,{})
        be.put('/identity-groups/g',{'count':rng.randint(1,3)})
        clk[0]+=1
        m.load_model(); m.init_schedule()
        n=0; hist=[]
        for step in range(rng.randint(5,25)):
            clk[0]+=3
            r=rng.random()
            if r<0.4:
                n+=1; name='foo.a%d#%010d'%(rng.randint(0,1),n)
                man={'memory':'%dG'%rng.choice([1,2,3,5]),'cpu':'10%','disk':'1G','affinity':name.split('#')[0]}
                if rng.random()<0.3: man['identity_group']='g'
                if rng.random()<0.3: man['lease']='100s'
                if rng.random()<0.2: man['data_retention_timeout']='30s'
                if rng.random()<0.15: man['schedule_once']=True
                be.put('/scheduled/'+name,man); hist.append(('add',name,man))
                m.process_scheduled(be.list('/scheduled'))
            elif r<0.5 and be.list('/scheduled'):
                name=rng.choice(be.list('/scheduled')); be.delete('/scheduled/'+name); hist.append(('del',name))
                m.process_scheduled(be.list('/scheduled'))
            elif r<0.65:
                s='s%d'%rng.randrange(ns)
                if be.exists('/server.presence/'+s): be.delete('/server.presence/'+s); hist.append(('down',s))
                else: be.put('/server.presence/'+s,{}); hist.append(('up',s))
                m.process_server_presence(be.list('/server.presence'))
            elif r<0.72:
                c=rng.randint(0,3); be.put('/identity-groups/g',{'count':c}); m.load_identity_groups(); hist.append(('idg',c))
            elif r<0.8:
                s='s%d'%rng.randrange(ns); be.put('/servers/'+s,{'parent':'rack:1','memory':'%dG'%rng.choice([2,4,8]),'cpu':'800%','disk':'8G','up_since':clk[0]})
                m.reload_servers([s]); hist.append(('resize',s))
            else:
                clk[0]+=rng.choice([1,40])
            try:
                m.reschedule(); m.check_placement_integrity()
            except Exception as e:
                return [('EXC-cycle',repr(e))],hist
            e=agree(be,m)
            if e: return [('C09',)+x for x in e],hist
        # restart
        clk[0]+=5
        old={a:(x.server,x.identity,x.placement_expiry) for a,x in m.cell.apps.items()}
        m2=master.Master(be,'cell')
        try:
            m2.load_model()
        except Exception as e:
            return [('EXC-load',repr(e))],hist
        errs=[]
        for a,x in m2.cell.apps.items():
            o=old.get(a)
            if o and o[0]:
                srv=m.servers.get(o[0])
                healthy = srv is not None and be.exists('/server.presence/'+o[0])
                if healthy and (x.server,x.identity,x.placement_expiry)!=o:
                    errs.append(('C11',a,o,(x.server,x.identity,x.placement_expiry)))
            if (not o or not o[0]) and x.server: errs.append(('C11 extra',a,x.server))
        try:
            m2.init_schedule(); m2.check_placement_integrity()
        except Exception as e:
            return errs+[('EXC-init',repr(e))],hist
        errs+= [('C09init',)+x for x in agree(be,m2)]
        return errs,hist

if __name__=='__main__':
    stats=collections.Counter(); ex={}
    for seed in range(int(sys.argv[1]),int(sys.argv[2])):
        errs,hist=run(seed)
        for e in errs:
            k=e[0]+':'+str(e[1]) if e[0].startswith('C09') else e[0]
            stats[k]+=1; ex.setdefault(k,(seed,e))
    print(stats)
    for k,v in ex.items(): print(k,v)
