"""C02 probe: quiescent cell + one probe instance vs leaf-scan oracle (real scheduler)."""
import random, sys, collections, mock
import numpy as np
from treadmill import scheduler
import rnd1
from rnd1 import CLK
scheduler.DIMENSION_COUNT=3
State=scheduler.State
def ancestors(node):
    while node is not None:
        yield node; node=node.parent
def run(seed, same_shape_guard):
    rng=random.Random(seed)
    cell,servers,racks,labels=rnd1.build(rng)
    allocs={}
    for lab in labels:
        root=cell.partitions[lab].allocation
        a1=root.get_sub_alloc('t1'); a1.update([rng.choice([0,4,8])]*3, 100, 0)
        allocs[lab]=[root,a1]
    cell.configure_identity_group('g',rng.randint(1,3))
    n=[0]
    def mk(prio=None):
        n[0]+=1; CLK.t+=0.001
        name='p.a%d#%010d'%(rng.randint(0,2),n[0])
        lim=None
        if rng.random()<0.3: lim={rng.choice(['server','rack','pod','cell']):rng.randint(1,3)}
        return scheduler.Application(name,prio if prio is not None else rng.choice([1,5,10,50]),[rng.choice([1,2,3,5,8]) for _ in range(3)],name.split('#')[0],
            affinity_limits=lim,lease=rng.choice([0,0,100]),identity_group=rng.choice([None,None,'g']),traits=rng.choice([0,0,0,2,4]))
    for step in range(rng.randint(5,40)):
        r=rng.random()
        if r<0.5:
            a=mk(); cell.add_app(rng.choice(allocs[rng.choice(labels)]),a)
        elif r<0.6 and cell.apps: cell.remove_app(rng.choice(sorted(cell.apps)))
        elif r<0.75:
            s=rng.choice(sorted(servers)); servers[s].state=rng.choice([State.up,State.down,State.up])
        else:
            CLK.t+=2; cell.schedule()
    # quiesce
    last=None
    for _ in range(6):
        CLK.t+=2; pl=[(a,b,d) for a,b,c,d,e in cell.schedule()]
        cur={a.name:a.server for a in cell.apps.values()}
        if cur==last: break
        last=cur
    else: return [('no-quiescence',)]
    probe=mk(prio=rng.choice([1,5,50]))
    lab=rng.choice(labels); al=rng.choice(allocs[lab]); cell.add_app(al,probe)
    # oracle on the quiescent state
    now=CLK.t+2
    fits=[]
    for s in servers.values():
        if s.state is not State.up: continue
        if lab not in s.labels: continue
        if probe.traits and not s.traits.has(probe.traits): continue
        if probe.lease and not (now+probe.lease < s.valid_until): continue
        if any(probe.demand>s.free_capacity): continue
        if any(not (nd.affinity_counters[probe.affinity.name] < probe.affinity.limits[nd.level]) for nd in ancestors(s)): continue
        fits.append(s.name)
    idfree = probe.identity_group is None or len(cell.identity_groups['g'].available)>0
    CLK.t+=2; cell.schedule()
    if fits and idfree and not probe.server:
        # attribute: is there a pending app ahead with same tracker shape?
        pend=[a for a in cell.apps.values() if a is not probe and not a.server and a.shape()[0]==probe.shape()[0]]
        return [('C02 pending though fits', 'same-shape-pending-exists' if pend else 'NO-same-shape', probe.name, fits, probe.final_rank==scheduler._UNPLACED_RANK)]
    return []
stats=collections.Counter(); ex={}
with mock.patch('time.time',CLK):
    for seed in range(int(sys.argv[1]),int(sys.argv[2])):
        for e in run(seed,False):
            k=e[0]+(':'+e[1] if len(e)>1 else '')+(':overcap' if len(e)>4 and e[4] else ''); stats[k]+=1; ex.setdefault(k,(seed,e))
print(stats)
for k,v in ex.items(): print(k,v)
