"""C17 probe: two PresenceResourceService instances (two sessions) on one shared mini ZK."""
import random, sys, collections, mock, json
from treadmill.services import presence_service as ps
from treadmill import zknamespace as z
import minizk, kazoo.exceptions as ke

class Client(minizk.MiniZk):
    def __init__(self,shared,session):
        minizk.MiniZk.__init__(self); self.nodes=shared['nodes']; self.seq=shared['seq']; self.now=shared['now']; self.session=session
        self.writes_log=shared['log']
    @property
    def client_id(self): return (self.session,b'')
    def DataWatch(self,path):
        def deco(f): return f
        return deco
    def create(self,path,value=b'',acl=None,ephemeral=False,sequence=False,makepath=False):
        r=minizk.MiniZk.create(self,path,value,acl,ephemeral,sequence,makepath); self.writes_log.append(('create',self.session,r,ephemeral)); return r
    def set(self,path,value):
        owner=self.nodes[path][1].owner_session_id if path in self.nodes else None
        self.writes_log.append(('set',self.session,path,owner)); return minizk.MiniZk.set(self,path,value)
    def delete(self,path,recursive=False):
        owner=self.nodes[path][1].owner_session_id if path in self.nodes else None
        self.writes_log.append(('delete',self.session,path,owner)); return minizk.MiniZk.delete(self,path)

def mk(shared,session,host):
    class Svc(ps.PresenceResourceService):
        __slots__=('_zk','retries')
        zkclient=property(lambda self: self._zk)
        def retry_request(self,rsrc_id): self.retries.append(rsrc_id)
    with mock.patch('treadmill.sysinfo.hostname',return_value=host):
        s=Svc()
    s._zk=Client(shared,session); s.retries=[]
    return s

def run(seed):
    rng=random.Random(seed); errs=[]
    shared={'nodes':{'/':(b'',minizk.Stat(0,0,0,None,0))},'seq':collections.Counter(),'now':[1000.0],'log':[]}
    boot=Client(shared,0)
    for p in (z.RUNNING,z.ENDPOINTS,z.IDENTITY_GROUPS+'/g'): boot.create(p,b'',makepath=True)
    sess=[1,2]; svcs=[mk(shared,1,'hostA'),mk(shared,2,'hostB')]
    nextsess=[3]
    conts=['foo.bar-0000000001-%s'%u for u in ('aaaaaaaaaaaaa','bbbbbbbbbbbbb','ccccccccccccc')]
    registered={0:{},1:{}}   # svc idx -> rsrc -> set(paths) we expect
    for step in range(rng.randint(5,30)):
        i=rng.randrange(2); svc=svcs[i]; c=rng.choice(conts); r=rng.random()
        del shared['log'][:]
        if r<0.5:
            data={'endpoints':[{'name':rng.choice(['http','ssh']),'port':80,'real_port':rng.choice([5000,5001]),'proto':'tcp'} for _ in range(rng.randint(0,2))]}
            if rng.random()<0.4: data.update(identity_group='g',identity=rng.choice([0,1]))
            try: svc.on_create_request(c,data)
            except ke.NodeExistsError: pass
        elif r<0.85:
            snapshot={p:v for p,v in shared['nodes'].items()}
            newer={p:rid for p,rid in svc.presence.get('foo.bar#0000000001',{}).items() if rid!=c}
            svc.on_delete_request(c)
            for p in newer:
                if p in snapshot and p not in shared['nodes']: errs.append(('deleted newer registration',c,p,newer[p]))
        else:
            # session expiry of svc i: ephemerals vanish, new session
            old=svc._zk.session
            for p in [p for p,(d,st) in shared['nodes'].items() if st.owner_session_id==old]: del shared['nodes'][p]
            svc._zk.session=nextsess[0]; nextsess[0]+=1
        for w in shared['log']:
            if w[0] in ('set','delete') and w[3] is not None and w[3]!=w[1]: errs.append(('touched foreign',w))
            if w[0]=='create' and w[2].count('/')>=2 and not w[2].endswith(('/foo',)):
                st=shared['nodes'].get(w[2])
                if not w[3] or (st and st[1].owner_session_id!=w[1]): errs.append(('not ephemeral own',w))
        if errs: break
    return errs
stats=collections.Counter(); ex={}
for seed in range(int(sys.argv[1]),int(sys.argv[2])):
    for e in run(seed): stats[e[0]]+=1; ex.setdefault(e[0],(seed,e))
print(stats)
for k,v in ex.items(): print(k,v)
