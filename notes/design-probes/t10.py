import random, sys, collections, mock
from treadmill import scheduler
scheduler.DIMENSION_COUNT=3
class Clock:
    t=1.6e9
    def __call__(self): return self.t
CLK=Clock()
def gen(rng):
    root=scheduler.Allocation(partition='p')
    allocs=[root]
    def grow(a,depth):
        if depth>=rng.randint(0,3): return
        for i in range(rng.randint(0,3)):
            s=a.get_sub_alloc('n%d'%i)
            s.update([rng.choice([0,0,2,5,10]) for _ in range(3)] if rng.random()<0.7 else [rng.choice([0,4])]*3, rng.choice([100,100,50,10,150]), rng.choice([0,0,5,20]), rng.choice([None,None,1.5,2.0,3.0]))
            allocs.append(s); grow(s,depth+1)
    grow(root,0)
    n=0
    for a in allocs:
        for _ in range(rng.randint(0,5)):
            n+=1; CLK.t+=0.001
            app=scheduler.Application('x.y#%d'%n, rng.choice([0,0,1,1,5,10,100]), [rng.choice([1,2,3]) for _ in range(3)], 'x.y')
            if rng.random()<0.4: app.server='s'
            a.add(app)
    return root,allocs
def check(root,allocs,free):
    errs=[]
    q=list(root.utilization_queue(free))
    names=[e[-1].name for e in q]
    allapps=[a.name for a in root.all_apps()]
    if sorted(names)!=sorted(allapps): errs.append('perm')
    ranks=[e[0] for e in q]
    if ranks!=sorted(ranks): errs.append('rank-mono')
    for al in allocs:
        mine=[e[-1] for e in q if e[-1].allocation is al]
        key=lambda app:(-app.priority,0 if app.server else 1,app.global_order,app.name)
        if mine!=sorted(mine,key=key): errs.append('alloc-order')
    for i,e in enumerate(q):
        for f in q[i+1:]:
            if e[0]==f[0] and e[-1].priority==0 and f[-1].priority!=0: errs.append('p0-last'); break
    # boost & cap per alloc
    import numpy as np
    for al in allocs:
        acc=np.zeros(3)
        mine=sorted(al.apps.values(),key=lambda app:(-app.priority,0 if app.server else 1,app.global_order,app.name))
        rk={e[-1].name:e[0] for e in q}
        for app in mine:
            acc=acc+app.demand
            if app.priority!=0 and all(acc<=al.reserved) and al.max_utilization==float('inf'):
                if rk[app.name]!=al.rank-al.rank_adjustment: errs.append(('boost',rk[app.name],al.rank,al.rank_adjustment))
    return errs
stats=collections.Counter()
with mock.patch('time.time',CLK):
    for seed in range(int(sys.argv[1]),int(sys.argv[2])):
        rng=random.Random(seed)
        root,allocs=gen(rng)
        import numpy as np
        for e in check(root,allocs,np.array([rng.choice([0,10,100])]*3,dtype=float)):
            stats[e if isinstance(e,str) else e[0]]+=1
print(stats)
