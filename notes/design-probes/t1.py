import time
from treadmill import scheduler
scheduler.DIMENSION_COUNT=3
def mkcell():
    cell=scheduler.Cell('top')
    cell.partitions[None]  # default
    return cell
# C02: tracker ignores app own traits
cell=scheduler.Cell('top')
rack=scheduler.Bucket('rack:1',level='rack'); cell.add_node(rack)
s1=scheduler.Server('s1',[10,10,10],valid_until=time.time()+1e6,label=None)
rack.add_node(s1)
alloc=cell.partitions[None].allocation
a=scheduler.Application('p.a#1',10,[1,1,1],'p.a',traits=2)
b=scheduler.Application('p.b#2',5,[1,1,1],'p.a')
cell.add_app(alloc,a); cell.add_app(alloc,b)
print(cell.schedule())
print(cell.schedule())
