"""Probe C03/C07/C08 on the real scheduler with random histories."""
import random, sys, collections, mock
import numpy as np
from treadmill import scheduler
import rnd1
from rnd1 import CLK
scheduler.DIMENSION_COUNT=3
State=scheduler.State

def run(seed,steps=50,with_idg=False,with_alloc_moves=False):
    rng=random.Random(seed)
    cell,servers,racks,labels=rnd1.build(rng)
    allocs={}
    for lab in labels:
        root=cell.partitions[lab].allocation
        a1=root.get_sub_alloc('t1'); a1.update([rng.choice([0,4,8])]*3, rng.choice([100,100,50]), rng.choice([0,0,10]), rng.choice([None,None,2.0]))
        a2=root.get_sub_alloc('t2'); a2.update([rng.choice([0,4])]*3,100,0)
        allocs[lab]=[root,a1,a2]
    cell.configure_identity_group('g',rng.randint(1,3))
    n=[0]; hist=[]; errs=[]
    queues=[]
    orig_fp=scheduler.Cell._find_placements
    def fp(self,queue,srv):
        queues.append([a.name for a in queue]); return orig_fp(self,queue,srv)
    def newapp():
        n[0]+=1; CLK.t+=0.001
        name='p.a%d#%010d'%(rng.randint(0,2),n[0])
        app=scheduler.Application(name,rng.choice([0,1,1,5,10,50]),[rng.choice([1,2,3,5,8]) for _ in range(3)],name.split('#')[0],
            data_retention_timeout=rng.choice([0,30,None]),lease=rng.choice([0,0,0,100]),
            identity_group=rng.choice([None,None,'g']),traits=rng.choice([0,0,0,2,4]),schedule_once=rng.random()<0.1)
        lab=rng.choice(labels)
        cell.add_app(rng.choice(allocs[lab]),app); hist.append(('add',name,lab))
    with mock.patch.object(scheduler.Cell,'_find_placements',fp):
      for step in range(steps):
        r=rng.random()
        if r<0.35: newapp()
        elif r<0.42 and cell.apps:
            nm=rng.choice(sorted(cell.apps)); cell.remove_app(nm); hist.append(('rm',nm))
        elif r<0.55:
            s=rng.choice(sorted(servers)); st=rng.choice([State.up,State.down,State.frozen]); servers[s].state=st; hist.append(('state',s,st.value,CLK.t))
        elif r<0.60: CLK.t+=rng.choice([1,20,40,200]); hist.append(('tick',CLK.t))
        elif r<0.65 and cell.apps:
            nm=rng.choice(sorted(cell.apps)); cell.apps[nm].priority=rng.choice([0,1,50,100]); hist.append(('prio',nm,cell.apps[nm].priority))
        elif r<0.70 and cell.apps:
            nm=rng.choice(sorted(cell.apps)); cell.apps[nm].blacklisted=not cell.apps[nm].blacklisted; hist.append(('bl',nm))
        elif r<0.73 and cell.apps:
            nm=rng.choice(sorted(cell.apps)); a=cell.apps[nm]
            if a.server and servers[a.server].state is State.frozen: a.unschedule=True; hist.append(('unsched',nm))
        else:
            CLK.t+=2
            # optionally renew
            ren=None
            if rng.random()<0.0:
                c=[a for a in cell.apps.values() if a.server and a.lease]
                if c: ren=rng.choice(c); ren.renew=True; hist.append(('renew',ren.name))
            now=CLK.t
            snap={a.name:dict(server=a.server,bl=a.blacklisted,ident=a.identity,grp=a.identity_group_ref,unsched=a.unschedule,renew=a.renew,drt=a.data_retention_timeout,exp=a.placement_expiry) for a in cell.apps.values()}
            sstate={s.name:s.get_state() for s in servers.values()}
            del queues[:]
            try: cell.schedule()
            except Exception as e:
                errs.append(('EXC',repr(e))); break
            hist.append(('sched',now))
            qpos={}
            for q in queues:
                for i,nm in enumerate(q): qpos[nm]=(id(q),i)
            gained=set()
            for nm,a in cell.apps.items():
                b=snap[nm]['server']
                if a.server and a.server!=b: gained.add(nm)
            renew_failed=set()
            for nm,a in cell.apps.items():
                sn=snap[nm]
                # C03 (assignments)
                if a.server and a.server!=sn['server']:
                    s=servers[a.server]
                    if s.state is not State.up: errs.append(('C03 assigned to non-up',nm,a.server))
                    if a.allocation.label not in s.labels: errs.append(('C03 label',nm))
                    if a.traits and not s.traits.has(a.traits): errs.append(('C03 traits',nm))
                    if a.lease and not (a.placement_expiry is not None and a.placement_expiry<= s.valid_until): errs.append(('C03 lease',nm,a.placement_expiry,s.valid_until))
                if a.server:
                    s=servers[a.server]
                    if a.allocation.label not in s.labels: errs.append(('C03b label',nm))
                    if a.traits and not s.traits.has(a.traits): errs.append(('C03b traits',nm))
                    if a.blacklisted: errs.append(('C08 blacklisted placed',nm))
                # C07
                b=sn['server']
                if b and sstate[b][0] is State.up and not sn['bl'] and a.final_rank!=scheduler._UNPLACED_RANK \
                   and not (sn['ident'] is not None and sn['grp'] is not None and sn['ident']>=sn['grp'].count):
                    if sn['renew']:
                        continue  # renewal path excluded (conservative)
                    if a.server!=b:
                        qi=qpos.get(nm)
                        ahead=[g for g in gained if qpos.get(g) and qpos[g][0]==qi[0] and qpos[g][1]<qi[1]]
                        if not ahead: errs.append(('C07 unjustified',nm,b,a.server))
                # C08
                if b and sstate[b][0] is State.down and not sn['bl'] and a.final_rank!=scheduler._UNPLACED_RANK:
                    since=sstate[b][1]; drt=sn['drt']
                    exp=0 if drt is None else since+drt
                    if now<exp and a.server!=b: errs.append(('C08 lost early',nm,b,a.server,now,exp))
                    if now>=exp and a.server==b: errs.append(('C08 kept late',nm,b,now,exp))
                if b and sstate[b][0] is State.frozen and not sn['bl'] and a.final_rank!=scheduler._UNPLACED_RANK and not sn['unsched']:
                    if a.server!=b: errs.append(('C08 frozen lost',nm,b,a.server))
                if a.server and a.server!=b and sstate[a.server][0] is not State.up: errs.append(('C08 new on non-up',nm,a.server))
            if errs: break
    return errs,hist

if __name__=='__main__':
    stats=collections.Counter(); ex={}
    with mock.patch('time.time',CLK):
        for seed in range(int(sys.argv[1]),int(sys.argv[2])):
            errs,hist=run(seed)
            for e in errs:
                stats[e[0]]+=1; ex.setdefault(e[0],(seed,e))
    print(stats)
    for k,v in ex.items(): print(k,v)
