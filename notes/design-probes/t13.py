"""C18 probe: cleanup_trace / cleanup_finished cut at every write; compare live ∪ snapshots."""
import random, sys, collections, mock, sqlite3, zlib, tempfile, os, copy
from treadmill.trace.app import zk as appzk
from treadmill.trace import _zk
from treadmill import zknamespace as z
import minizk

def snapshot_events(zkc):
    out=[]
    for node in zkc.get_children(z.TRACE_HISTORY):
        data,_=zkc.get(z.path.trace_history(node))
        with tempfile.NamedTemporaryFile(delete=False) as f: f.write(zlib.decompress(data))
        conn=sqlite3.connect(f.name)
        out+= [(r[0]) for r in conn.execute('select path from trace')]
        conn.close(); os.unlink(f.name)
    return out
def live_events(zkc):
    out=[]
    for shard in zkc.get_children(z.TRACE):
        for e in zkc.get_children(z.path.trace_shard(shard)): out.append(z.join_zookeeper_path(z.TRACE,shard,e))
    return out
def build(rng):
    zkc=minizk.MiniZk()
    for p in (z.SCHEDULED,z.TRACE,z.TRACE_HISTORY,z.FINISHED,z.FINISHED_HISTORY): zkc.create(p,b'',makepath=True)
    insts=['p.a#%010d'%i for i in range(rng.randint(1,6))]
    sched=[i for i in insts if rng.random()<0.4]
    for i in sched: zkc.create(z.path.scheduled(i),b'{}')
    now=10000.0; expiry=100
    for i in insts:
        for k in range(rng.randint(0,6)):
            ts=now-expiry+rng.choice([-50,-1,-0.5,0,0.5,1,50])+k*0.001
            ev='%s,host,%s,%s'%(ts,rng.choice(['pending','scheduled','configured','finished']),'x%d'%k)
            try: zkc.create(z.path.trace(i,ev),b'',makepath=True)
            except Exception: pass
    zkc.now[0]=now
    return zkc,set(sched),now,expiry
def run(seed):
    rng=random.Random(seed); errs=[]
    zkc0,sched,now,expiry=build(rng)
    bs=rng.randint(1,5)
    live0=set(live_events(zkc0))
    # full run to count writes
    k=0
    while True:
        zkc=copy.deepcopy(zkc0); zkc.cut=k; w0=zkc.writes; zkc.cut=w0+k
        done=False
        with mock.patch('time.time',lambda: now), mock.patch('time.sleep',lambda s: None):
            try:
                appzk.cleanup_trace(zkc,bs,expiry); done=True
            except minizk.Cut: pass
        zkc.cut=None
        live=set(live_events(zkc)); snap=set(snapshot_events(zkc))
        lost=live0-live-snap
        if lost: errs.append(('lost',k,sorted(lost)[:2]))
        for p in snap:
            ev=p.rsplit('/',1)[1]; inst,ts,_=ev.split(',',2)
            if inst in sched: errs.append(('archived scheduled',k,p))
            if float(ts)>=now-expiry: errs.append(('archived young',k,p))
        if done:
            # retrievable
            for p in snap:
                ev=p.rsplit('/',1)[1]; inst=ev.split(',')[0]
                found=[]
                for node in zkc.get_children(z.TRACE_HISTORY):
                    found+=_zk.download_batch(zkc,z.path.trace_history(node),'trace',inst)
                if ev not in found: errs.append(('not retrievable',p))
            break
        k+=1
        if errs or k>400: break
    return errs
stats=collections.Counter(); ex={}
for seed in range(int(sys.argv[1]),int(sys.argv[2])):
    for e in run(seed): stats[e[0]]+=1; ex.setdefault(e[0],(seed,e))
print(stats)
for k,v in ex.items(): print(k,v)
