"""C20 probe: random evaluation sequences of appmonitor.reevaluate with fakes."""
import random, sys, math, collections, mock
from treadmill.sproc import appmonitor
from treadmill import restclient

def run(seed):
    rng=random.Random(seed)
    now=[1000.0]
    state={'scheduled':collections.defaultdict(list),'monitors':{},'suspended':{}}
    names=['p.a','p.b']
    inst=[0]
    errs=[]
    calls=[]
    def post(api,url,payload=None,headers=None):
        calls.append((url,payload))
        mode=rng.random()
        if url.startswith('/instance/_bulk/delete'):
            if mode<0.1: raise Exception('boom')
            return mock.Mock()
        if mode<0.08: raise restclient.NotFoundError('nf')
        if mode<0.14: raise restclient.BadRequestError('bad')
        if mode<0.18: raise restclient.ValidationError('val')
        if mode<0.24: raise Exception('other')
        return mock.Mock()
    def setmon(n,count,policy=None):
        state['monitors'][n]={'count':count,'available':2.0*count,'last_update':now[0],'policy':policy,'rate':(2.0*count/appmonitor._INTERVAL)}
    last_waited={}
    with mock.patch('time.time',lambda: now[0]), mock.patch('treadmill.restclient.post',post), mock.patch('treadmill.zkutils.update',mock.Mock()):
        for step in range(rng.randint(5,40)):
            r=rng.random()
            if r<0.15 or not state['monitors']:
                setmon(rng.choice(names),rng.randint(0,8),rng.choice([None,'fifo','lifo','bogus']))
            elif r<0.2 and state['monitors']:
                state['monitors'].pop(rng.choice(sorted(state['monitors'])))
            elif r<0.45:
                n=rng.choice(names)
                for _ in range(rng.randint(1,4)):
                    inst[0]+=1; state['scheduled'][n].append('%s#%010d'%(n,inst[0]))
            elif r<0.6:
                n=rng.choice(names)
                l=state['scheduled'][n]
                for _ in range(min(len(l),rng.randint(1,3))): l.pop(rng.randrange(len(l)))
            now[0]+=rng.choice([1,1,5,60,600,3600])
            for n in names: state['scheduled'][n].sort()
            before={n:dict(c) for n,c in state['monitors'].items()}
            susp_before=dict(state['suspended'])
            grouped={n:list(v) for n,v in state['scheduled'].items()}
            del calls[:]
            last_waited=appmonitor.reevaluate('http://x',mock.Mock(),state,mock.Mock(),last_waited)
            per=collections.defaultdict(list)
            for url,payload in calls:
                if url.startswith('/instance/_bulk/delete'):
                    nm=payload['instances'][0].rpartition('#')[0] if payload['instances'] else '?'
                    per[nm].append(('del',payload['instances']))
                else:
                    nm=url[len('/instance/'):url.index('?')]; per[nm].append(('create',int(url.split('count=')[1])))
            for nm,cs in per.items():
                kinds={c[0] for c in cs}
                if len(kinds)>1: errs.append(('both',nm))
                if nm not in before: errs.append(('deleted-monitor-acted',nm)); continue
                if susp_before.get(nm,0)>now[0]: errs.append(('suspended-acted',nm))
                count=before[nm]['count']; cur=len(grouped.get(nm,[]))
                # refill expected
                avail=before[nm]['available']
                if avail<2*count: avail=min(avail+before[nm]['rate']*(now[0]-before[nm]['last_update']),2*count)
                for c in cs:
                    if c[0]=='create':
                        if c[1]>count-cur: errs.append(('overshoot',nm,c[1],count,cur))
                        if c[1]>math.floor(avail)+1e-9: errs.append(('budget',nm,c[1],avail))
                        if c[1]<=0: errs.append(('nonpositive',nm))
                    else:
                        surplus=cur-count
                        pol=before[nm].get('policy') or 'fifo'
                        exp=grouped[nm][:surplus] if pol=='fifo' else grouped[nm][-surplus:]
                        if list(c[1])!=exp: errs.append(('delete-set',nm,pol,c[1],exp))
            for nm,c in state['monitors'].items():
                if c['available']<-1e-9: errs.append(('negative',nm,c['available']))
                if c['available']>2*c['count']+1e-9: errs.append(('over-cap',nm,c['available'],c['count']))
            if errs: break
    return errs
stats=collections.Counter(); ex={}
for seed in range(int(sys.argv[1]),int(sys.argv[2])):
    for e in run(seed): stats[e[0]]+=1; ex.setdefault(e[0],(seed,e))
print(stats)
for k,v in ex.items(): print(k,v)
