"""Observation (NOT a C19 defect; found while modelling cellsync.sync_server_topology).

`sync_server_topology` names rack buckets `rack:%04X` by the rack number alone (0..15), but creates them with
`parent_id=<the pod bucket of the server>`.  Two servers whose md5 puts them into the same rack number of
*different* pods therefore share one `/buckets/rack:XXXX` node: every sync run rewrites that node twice (once per
pod) and posts two `buckets` events, for ever; the rack ends up below the pod of whichever server LDAP listed last,
so the other server's rack is in the wrong pod.  The run is never idempotent.

Run:  PYTHONPATH=/repo/lib/python:/verif/harness /venv/bin/python notes/cellsync_rack_bucket_flapping.py
"""
import hashlib
import types

import mock

import fakezk_cellsync
from treadmill import cellsync


def pod_rack(name):
    n = int(hashlib.md5(name.encode()).hexdigest(), 16)
    return n >> 126, (n % (1 << 126)) % 16


# find two names in the same rack number of different pods
seen = {}
pair = None
for i in range(1000):
    name = 'srv%d' % i
    pod, rack = pod_rack(name)
    if rack in seen and seen[rack][0] != pod:
        pair = (seen[rack][1], name)
        break
    seen.setdefault(rack, (pod, name))
print('servers', pair, [pod_rack(n) for n in pair])

zk = fakezk_cellsync.FakeZk()
zk.force('/server.presence', b'')
servers = [{'_id': n, 'partition': 'p1'} for n in pair]
admin = types.SimpleNamespace(server=lambda: types.SimpleNamespace(list=lambda attrs: [dict(s) for s in servers]))
glob = types.SimpleNamespace(cell='c1', admin=admin, zk=types.SimpleNamespace(conn=zk))
with mock.patch('treadmill.context.GLOBAL', glob):
    for run in range(3):
        del zk.log[:]
        cellsync.sync_server_topology()
        writes = [w for w in zk.log if w[1].startswith('/buckets/rack') or w[1].startswith('/events/000-buckets')]
        print('run', run, 'rack bucket writes / bucket events:', writes,
              '->', zk.node('/buckets/rack:%04X' % pod_rack(pair[0])[1]).data)
