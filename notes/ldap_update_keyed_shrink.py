"""Suspected defect (C15, update path) - reproducer against the real code, no harness.

`Admin.update(dn, new_entry)` reads only the attributes that `new_entry` NAMES
(`_entry_plain_keys(new_entry)`), diffs them and deletes what is read but not written.  When an
update shrinks a keyed list (services / endpoints / environ of an Application, limits of a
Partition, ...) and the dropped row carried a field that no row of the new list carries, that
field's attribute (`service-command;tm-service-1`) is never read, so it is not deleted, while the
row's key attribute (`service-name;tm-service-1`) is.  The stored entry then holds a row without
its key: `Application.from_entry` raises KeyError('name'); for a Partition the decoded `limits`
contain a row without `trait`.

Run:  PYTHONPATH=/repo/lib/python /venv/bin/python notes/ldap_update_keyed_shrink.py
"""
import copy

import ldap3
from treadmill.admin import _ldap


def directory(stored):
    """the real Admin over one stored entry (a search returns the requested attributes with their
    option variants, a modify applies the changes)"""
    class _Dir(_ldap.Admin):
        def get(self, dn, query, attrs, paged_search=True, dirty=False):
            return {k: list(v) for k, v in stored.items() if k.split(';', 1)[0] in set(attrs)}

        def modify(self, dn, changes):
            for attr, mods in (changes or {}).items():
                for op, vals in mods:
                    if op == ldap3.MODIFY_DELETE:
                        stored.pop(attr, None)
                    elif op == ldap3.MODIFY_ADD:
                        stored[attr] = stored.get(attr, []) + list(vals)
                    else:
                        stored[attr] = list(vals)
    return _Dir('ldap://x', 'dc=x')


def main():
    app = _ldap.Application(None)
    before = {'memory': '1G',
              'services': [{'name': 'a', 'restart': {'limit': 1, 'interval': 60}},
                           {'name': 'b', 'command': '/bin/b', 'restart': {'limit': 1, 'interval': 60}}]}
    stored = _ldap._remove_empty(app.to_entry(copy.deepcopy(before)))
    after = {'memory': '1G', 'services': [{'name': 'a', 'restart': {'limit': 1, 'interval': 60}}]}
    _ldap.Application(directory(stored)).update('proid.app', copy.deepcopy(after))
    print('stored after the update:', {k: v for k, v in stored.items() if 'service' in k})
    try:
        print('read back:', app.from_entry(copy.deepcopy(stored)))
    except KeyError as err:
        print('from_entry raised KeyError(%s): service-command;tm-service-1 was left behind' % err)

    part = _ldap.Partition(None)
    stored = _ldap._remove_empty(part.to_entry({'memory': '1G', 'limits': [{'trait': 'a'}, {'trait': 'b', 'cpu': '10%'}]}))
    _ldap.Partition(directory(stored)).update(['p', 'cell'], {'limits': [{'trait': 'a'}]})
    print('partition stored after the update:', stored)
    print('partition read back:', part.from_entry(copy.deepcopy(stored)))


if __name__ == '__main__':
    main()
